import QuillModel.Rot.Model
/-!
Helper lemmas for C15: what `write` does to `_next_rotation_time`, the grid invariant, the loop in closed form,
the first rotation point.
-/
namespace Rot

/-! ### frame lemmas: which fields `rotate` / `prepare` / `write` touch -/

theorem rotate_cfg (P : Params) (z : Nat → Int) (w : World) (ts : Nat) : (rotate P z w ts).sink.cfg = w.sink.cfg := by
  unfold rotate
  dsimp only
  split
  · rfl
  · split
    · rfl
    · split <;> rfl

theorem rotate_nextRot (P : Params) (z : Nat → Int) (w : World) (ts : Nat) : (rotate P z w ts).sink.nextRot = w.sink.nextRot := by
  unfold rotate
  dsimp only
  split
  · rfl
  · split
    · rfl
    · split <;> rfl

/-- the trigger test of `_time_rotation` as `write_log` applies it -/
def timeDue (w : World) (ts : Nat) : Prop := w.sink.cfg.freq ≠ .disabled ∧ ts ≥ w.sink.nextRot

instance (w : World) (ts : Nat) : Decidable (timeDue w ts) := by unfold timeDue; infer_instance

theorem prepare_cfg (P : Params) (z : Nat → Int) (w : World) (size ts : Nat) :
    (prepare P z w size ts).sink.cfg = w.sink.cfg := by
  unfold prepare timeRotation sizeRotation
  dsimp only
  repeat' split
  all_goals simp only [rotate_cfg]

theorem prepare_nextRot (P : Params) (z : Nat → Int) (w : World) (size ts : Nat) :
    (prepare P z w size ts).sink.nextRot =
      if timeDue w ts then advance P.advancesFromSchedule (period w.sink.cfg) w.sink.nextRot ts
      else w.sink.nextRot := by
  unfold prepare timeRotation sizeRotation timeDue
  dsimp only
  by_cases hf : w.sink.cfg.freq = Freq.disabled
  · simp only [hf, ne_eq, not_true_eq_false, ↓reduceIte, false_and]
    repeat' split
    all_goals simp only [rotate_nextRot]
  · by_cases ht : ts ≥ w.sink.nextRot
    · simp [hf, ht]
    · simp only [ne_eq, hf, not_false_eq_true, ↓reduceIte, ht, true_and]
      repeat' split
      all_goals simp only [rotate_nextRot]

theorem write_cfg (P : Params) (z : Nat → Int) (w : World) (st : Stmt) (ts : Nat) :
    (write P z w st ts).sink.cfg = w.sink.cfg := by
  simp only [write, appendCur, prepare_cfg]

theorem write_nextRot (P : Params) (z : Nat → Int) (w : World) (st : Stmt) (ts : Nat) :
    (write P z w st ts).sink.nextRot =
      if timeDue w ts then advance P.advancesFromSchedule (period w.sink.cfg) w.sink.nextRot ts
      else w.sink.nextRot := by
  simp only [write, appendCur, prepare_nextRot]

/-! ### the schedule -/

/-- `n` is the first point of the grid `g0, g0+p, g0+2p, …` strictly after every instant of `tss` -/
structure GridInv (g0 p : Nat) (tss : List Nat) (n : Nat) : Prop where
  onGrid : ∃ k, n = g0 + k * p
  after : ∀ t ∈ tss, t < n
  first : n = g0 ∨ ∃ t ∈ tss, n ≤ t + p

theorem advance_gt (p next ts : Nat) (hp : 0 < p) (h : next ≤ ts) : ts < advance true p next ts := by
  simp only [advance, ↓reduceIte]
  have := Nat.lt_mul_div_succ (ts - next) hp
  rw [Nat.mul_comm] at this
  omega

theorem advance_le (p next ts : Nat) (h : next ≤ ts) : advance true p next ts ≤ ts + p := by
  simp only [advance, ↓reduceIte]
  have := Nat.div_mul_le_self (ts - next) p
  rw [Nat.add_mul]
  omega

theorem advance_onGrid (g0 p next ts : Nat) (h : ∃ k, next = g0 + k * p) :
    ∃ k, advance true p next ts = g0 + k * p := by
  obtain ⟨k, rfl⟩ := h
  refine ⟨k + ((ts - (g0 + k * p)) / p + 1), ?_⟩
  simp only [advance, ↓reduceIte]
  rw [Nat.add_mul k]
  omega

/-- one record: the invariant is kept by the repaired advance rule -/
theorem gridInv_step (g0 p : Nat) (hp : 0 < p) (tss : List Nat) (n ts : Nat) (h : GridInv g0 p tss n) :
    GridInv g0 p (ts :: tss) (if n ≤ ts then advance true p n ts else n) := by
  by_cases hts : n ≤ ts
  · simp only [hts, ↓reduceIte]
    have hgt := advance_gt p n ts hp hts
    refine ⟨advance_onGrid g0 p n ts h.onGrid, ?_, Or.inr ⟨ts, List.mem_cons_self, advance_le p n ts hts⟩⟩
    intro t ht
    rcases List.mem_cons.mp ht with rfl | ht
    · exact hgt
    · have := h.after t ht; omega
  · simp only [hts, ↓reduceIte]
    refine ⟨h.onGrid, ?_, ?_⟩
    · intro t ht
      rcases List.mem_cons.mp ht with rfl | ht
      · omega
      · exact h.after t ht
    · rcases h.first with h1 | ⟨t, ht, hle⟩
      · exact Or.inl h1
      · exact Or.inr ⟨t, List.mem_cons_of_mem _ ht, hle⟩

/-- leastness: no point of the grid that lies after every record is earlier than `n` -/
theorem gridInv_least (g0 p : Nat) (_hp : 0 < p) (tss : List Nat) (n : Nat) (h : GridInv g0 p tss n)
    (k' : Nat) (hk : ∀ t ∈ tss, t < g0 + k' * p) : n ≤ g0 + k' * p := by
  rcases h.first with h1 | ⟨t, ht, hle⟩
  · omega
  · obtain ⟨k, hk0⟩ := h.onGrid
    have h1 := hk t ht
    have h2 : k * p < (k' + 1) * p := by rw [Nat.add_mul]; omega
    have h3 : k < k' + 1 := Nat.lt_of_mul_lt_mul_right h2
    have h4 : k * p ≤ k' * p := Nat.mul_le_mul_right p (by omega)
    omega

/-- the closed form is what the `do … while` loop computes (given enough iterations) -/
theorem advance_loop (p ts : Nat) (hp : 0 < p) :
    ∀ (fuel next : Nat), next ≤ ts → (ts - next) / p < fuel →
      advanceLoop p ts fuel next = advance true p next ts := by
  intro fuel
  induction fuel with
  | zero => intro next _ h; exact absurd h (Nat.not_lt_zero _)
  | succ f ih =>
    intro next hle hf
    simp only [advanceLoop]
    by_cases h : ts ≥ next + p
    · simp only [h, ↓reduceIte]
      have hd : (ts - next) / p = (ts - (next + p)) / p + 1 := by
        have : ts - next = (ts - (next + p)) + p := by omega
        rw [this, Nat.add_div_right _ hp]
      rw [ih (next + p) h (by omega)]
      simp only [advance, ↓reduceIte, hd]
      rw [Nat.add_mul ((ts - (next + p)) / p + 1) 1 p]
      omega
    · simp only [h, ↓reduceIte]
      have : (ts - next) / p = 0 := Nat.div_eq_of_lt (by omega)
      simp only [advance, ↓reduceIte, this]
      omega

/-- a valid configuration with time rotation has a positive period -/
theorem period_pos (c : Cfg) (hc : CfgOK c) (hf : c.freq ≠ .disabled) : 0 < period c := by
  obtain ⟨h1, _⟩ := hc
  unfold period NS
  cases hfr : c.freq with
  | disabled => exact absurd hfr hf
  | daily => simp
  | hourly =>
    have := h1 (Or.inl hfr)
    simp only
    exact Nat.mul_pos (Nat.mul_pos this (by decide)) (by decide)
  | minutely =>
    have := h1 (Or.inr hfr)
    simp only
    exact Nat.mul_pos (Nat.mul_pos this (by decide)) (by decide)

/-- the first rotation point in whole seconds (constant offset): strictly after the start second, on the next minute /
    hour boundary of local time, or at the next local HH:MM:00 -/
theorem initialSecs_spec (off : Int) (c : Cfg) (t : Int) (hc : CfgOK c) :
    (c.freq ≠ .disabled → t < initialSecs off c t) ∧
      (c.freq = .minutely → initialSecs off c t ≤ t + 60 ∧ (initialSecs off c t + off) % 60 = 0) ∧
      (c.freq = .hourly → initialSecs off c t ≤ t + 3600 ∧ (initialSecs off c t + off) % 3600 = 0) ∧
      (c.freq = .daily → initialSecs off c t ≤ t + 86400 ∧
        (initialSecs off c t + off) % 86400 = (c.dailyH : Int) * 3600 + (c.dailyM : Int) * 60) := by
  obtain ⟨_, h2⟩ := hc
  unfold initialSecs
  cases hf : c.freq with
  | disabled => simp
  | minutely => simp only; refine ⟨fun _ => by split <;> omega, fun _ => by split <;> omega, by simp, by simp⟩
  | hourly => simp only; refine ⟨fun _ => by split <;> omega, by simp, fun _ => by split <;> omega, by simp⟩
  | daily =>
    have := h2 hf
    simp only; refine ⟨fun _ => by split <;> omega, by simp, by simp, fun _ => by split <;> omega⟩

end Rot
