/-!
# Rotation model — `quill::RotatingSink<FileSink>` (include/quill/sinks/RotatingSink.h)

A small total computable model of the code that exists:

* an abstract file system: a finite map `Name → List Stmt` (`FS`, association list read through `FS.get`);
  a name is a structured value — the sink's family `file sfx idx` (= `base[.sfx][.idx].ext`, `_get_filename`),
  `junk k` (a file that passes the directory-scan filter "same extension, starts with `stem.`" but is neither an
  index nor a date, e.g. `log.abc.log`) and `foreign k` (a file the scan ignores). Names are rendered to strings
  only by the driver.
* the sink state: configuration, `_created_files`, `_next_rotation_time`, `_open_file_timestamp`, `_file_size`.
  `created` is the deque read from its **back to its front**: oldest rotated file first, the current file last.
* `restart` = the constructor (`_clean_and_recover_files`, `_calculate_initial_rotation_tp`, `open_file`),
  `write` = `write_log` (`_time_rotation`, `_size_rotation`, `_rotate_files`, `StreamSink::write_log`).

Quirks of the code that the model keeps: `_rotate_files` returns without rotating when the current file is empty
(`_get_file_size(...) <= 0`) — `_time_rotation` still advances `_next_rotation_time` and still suppresses the size
check; rotation stops when `_created_files.size() > max_backup_files` with `overwrite_rolled_files` off; only one
file is deleted per rotation when `deletesAllExcess` is off (finding F18: a smaller `max_backup_files` after a restart
never shrinks the set; repaired by a `while`); start-up
recovery exists for Index, only for today's files for Date, not at all for DateAndTime; the Minutely/Hourly first
point is the next minute/hour boundary whatever the interval.

Scope: the naming scheme and the base file name are fixed for the life of a directory (every other setting may
change at a restart); `FilenameAppendOption::None`; timestamps are `Nat` nanoseconds (no `uint64` wrap); the time
zone is a function `z : instant → UTC offset in seconds` (GMT = `fun _ => 0`; the theorems are about a constant
offset, `mktime` is modelled as `local − offset(start)`; DST is out of scope of the theorems).
The model is parametric in `advancesFromSchedule` (extracted from `_time_rotation`): `true` = the repaired loop
that advances from the scheduled point, `false` = the pinned `record_ts + period` (finding F9) — and in
`deletesAllExcess` (extracted from `_rotate_files`: `while` vs `if`, finding F18).
-/
namespace Rot

structure Stmt where
  id : Nat
  size : Nat
  deriving DecidableEq, Repr

inductive Scheme | index | date | dateTime
  deriving DecidableEq, Repr

inductive Freq | disabled | daily | hourly | minutely
  deriving DecidableEq, Repr

inductive Name
  | file (sfx : Option Int) (idx : Nat)
  | junk (k : Nat)
  | foreign (k : Nat)
  deriving DecidableEq, Repr

/-- the file the sink writes to: `this->_filename` -/
def curName : Name := .file none 0

/-! ### abstract file system -/

abbrev FS := List (Name × List Stmt)

def FS.get : FS → Name → Option (List Stmt)
  | [], _ => none
  | (m, c) :: fs, n => if m = n then some c else FS.get fs n

def FS.del (fs : FS) (n : Name) : FS := fs.filter (fun p => decide (p.1 ≠ n))

def FS.put (fs : FS) (n : Name) (c : List Stmt) : FS := (n, c) :: fs.del n

/-- `fs::rename(a, b, ec)`: replaces `b`; fails silently (the code ignores `ec`) when `a` does not exist -/
def FS.rename (fs : FS) (a b : Name) : FS :=
  match fs.get a with
  | none => fs
  | some c => (fs.del a).put b c

def bytes (c : List Stmt) : Nat := (c.map (·.size)).sum

/-! ### configuration and sink state -/

structure Cfg where
  scheme : Scheme := .index
  limit : Nat := 0                 -- rotation_max_file_size, 0 = disabled
  maxBackup : Nat := 4294967295    -- max_backup_files
  overwrite : Bool := true         -- overwrite_rolled_files
  append : Bool := true            -- open mode "a" (false = "w")
  removeOld : Bool := true         -- remove_old_files
  freq : Freq := .disabled
  interval : Nat := 0
  dailyH : Nat := 0
  dailyM : Nat := 0
  deriving DecidableEq, Repr

structure FileInfo where
  sfx : Option Int
  idx : Nat
  deriving DecidableEq, Repr

/-- `_get_filename(base, index, date_time)` -/
def FileInfo.name (e : FileInfo) : Name := .file e.sfx e.idx

def curInfo : FileInfo := ⟨none, 0⟩

structure Sink where
  cfg : Cfg
  created : List FileInfo   -- `_created_files` from back (oldest) to front (current file)
  nextRot : Nat             -- `_next_rotation_time` (ns); meaningless when the frequency is Disabled
  openTs : Nat              -- `_open_file_timestamp`
  fileSize : Nat            -- `_file_size`
  deriving Repr

structure World where
  fs : FS
  sink : Sink

structure Params where
  /-- `_time_rotation` advances from the scheduled point in a loop (repair of F9) -/
  advancesFromSchedule : Bool
  /-- `_rotate_files` removes *every* file in excess of `max_backup_files` (`while`, repair of F18), not one per rotation (`if`) -/
  deletesAllExcess : Bool := true
  deriving DecidableEq, Repr

/-- the code after the `fix:` commits for F9 and F18 -/
def Params.repaired : Params := { advancesFromSchedule := true, deletesAllExcess := true }

/-! ### civil time (seconds / days since the epoch in the sink's zone) -/

def NS : Nat := 1000000000

def civilSec (z : Nat → Int) (ts : Nat) : Int := ((ts / NS : Nat) : Int) + z ts
def civilDay (z : Nat → Int) (ts : Nat) : Int := civilSec z ts / 86400

/-- rotation period in ns (`_calculate_rotation_tp` adds it) -/
def period (c : Cfg) : Nat :=
  match c.freq with
  | .disabled => 0
  | .daily => 24 * 3600 * NS
  | .hourly => c.interval * 3600 * NS
  | .minutely => c.interval * 60 * NS

/-- `_calculate_initial_rotation_tp` in whole seconds: `t` = start instant, `off` = UTC offset at the start;
    `mktime`/`timegm` = local seconds − `off` -/
def initialSecs (off : Int) (c : Cfg) (t : Int) : Int :=
  let loc := t + off
  let target : Int :=
    match c.freq with
    | .minutely => (loc / 60 + 1) * 60
    | .hourly => (loc / 3600 + 1) * 3600
    | .daily => loc / 86400 * 86400 + (c.dailyH : Int) * 3600 + (c.dailyM : Int) * 60
    | .disabled => 0
  let rt := target - off
  if rt > t then rt else rt + 86400

def initialRot (z : Nat → Int) (c : Cfg) (start : Nat) : Nat :=
  (initialSecs (z start) c ((start / NS : Nat) : Int)).toNat * NS

/-- the `do … while (record_ts >= _next_rotation_time)` loop in closed form (`adv`), or the pinned
    `_calculate_rotation_tp(record_ts)` -/
def advance (adv : Bool) (p next ts : Nat) : Nat :=
  if adv then next + ((ts - next) / p + 1) * p else ts + p

/-- the loop itself, with fuel; `advance_loop` shows the closed form is what it computes -/
def advanceLoop (p ts : Nat) : Nat → Nat → Nat
  | 0, next => next
  | fuel + 1, next => if ts ≥ next + p then advanceLoop p ts fuel (next + p) else next + p

/-! ### `_rotate_files` -/

def newSuffix (z : Nat → Int) (sch : Scheme) (openTs : Nat) : Option Int :=
  match sch with
  | .index => none
  | .date => some (civilDay z openTs)
  | .dateTime => some (civilSec z openTs)

/-- one iteration of the rename loop: the entry after it -/
def entryAfter (sch : Scheme) (sfx : Option Int) (e : FileInfo) : FileInfo :=
  if sch = .index ∨ e.sfx = sfx then ⟨sfx, e.idx + 1⟩
  else if e.sfx = none then ⟨sfx, e.idx⟩
  else e

/-- one iteration of the rename loop: the `_rename_file(existing, renamed)` it performs, if any -/
def moveOf (sch : Scheme) (sfx : Option Int) (e : FileInfo) : Option (Name × Name) :=
  if sch = .index ∨ e.sfx = sfx then some (e.name, .file sfx (e.idx + 1))
  else if e.sfx = none then some (e.name, .file sfx e.idx)
  else none

def applyMoves : FS → List (Name × Name) → FS
  | fs, [] => fs
  | fs, (a, b) :: ms => applyMoves (fs.rename a b) ms

/-- does `_rotate_files` return at its first test (backup limit reached, overwriting not allowed)? -/
def stopped (s : Sink) : Bool := decide (s.created.length > s.cfg.maxBackup) && !s.cfg.overwrite

/-- how many files the deletion step of `_rotate_files` removes from the back of a deque of `len` entries -/
def excess (all : Bool) (len maxB : Nat) : Nat :=
  if len > maxB then (if all then len - maxB else 1) else 0

/-- `_remove_file` for each of the entries -/
def delAll (fs : FS) (l : List FileInfo) : FS := l.foldl (fun fs e => fs.del e.name) fs

def rotate (P : Params) (z : Nat → Int) (w : World) (ts : Nat) : World :=
  let s := w.sink
  let c := s.cfg
  if stopped s then w
  else
    match w.fs.get curName with
    | none => w
    | some cont =>
      if bytes cont = 0 then w
      else
        let sfx := newSuffix z c.scheme s.openTs
        -- close_file(); the loop `for (it = rbegin(); it != rend(); ++it)`: oldest first
        let fs1 := applyMoves w.fs (s.created.filterMap (moveOf c.scheme sfx))
        let cr1 := s.created.map (entryAfter c.scheme sfx)
        -- `while` / `if (_created_files.size() > max_backup_files) { remove(back); pop_back(); }`
        let n := excess P.deletesAllExcess cr1.length c.maxBackup
        let fs2 := delAll fs1 (cr1.take n)
        let cr2 := cr1.drop n
        -- emplace_front(current); open_file(_filename, "w")
        { fs := fs2.put curName [],
          sink := { s with created := cr2 ++ [curInfo], openTs := ts, fileSize := 0 } }

/-! ### `write_log` -/

def timeRotation (P : Params) (z : Nat → Int) (w : World) (ts : Nat) : World × Bool :=
  if ts ≥ w.sink.nextRot then
    let w1 := rotate P z w ts
    ({ w1 with sink := { w1.sink with
         nextRot := advance P.advancesFromSchedule (period w.sink.cfg) w.sink.nextRot ts } }, true)
  else (w, false)

def sizeRotation (P : Params) (z : Nat → Int) (w : World) (size ts : Nat) : World :=
  if w.sink.fileSize + size > w.sink.cfg.limit then rotate P z w ts else w

/-- the state just before `base_type::write_log` -/
def prepare (P : Params) (z : Nat → Int) (w : World) (size ts : Nat) : World :=
  let r := if w.sink.cfg.freq ≠ .disabled then timeRotation P z w ts else (w, false)
  if !r.2 ∧ r.1.sink.cfg.limit ≠ 0 then sizeRotation P z r.1 size ts else r.1

/-- `StreamSink::write_log` appends to the open file; `_file_size += size` -/
def appendCur (w : World) (st : Stmt) : World :=
  { fs := w.fs.put curName ((w.fs.get curName).getD [] ++ [st]),
    sink := { w.sink with fileSize := w.sink.fileSize + st.size } }

def write (P : Params) (z : Nat → Int) (w : World) (st : Stmt) (ts : Nat) : World :=
  appendCur (prepare P z w st.size ts) st

/-! ### constructor: `_clean_and_recover_files`, first rotation point, `open_file` -/

/-- passes the filter of the directory scan: same extension and the name starts with `stem.` -/
def matchesFilter : Name → Bool
  | .file _ _ => true
  | .junk _ => true
  | .foreign _ => false

/-- Date scheme clean-up keeps everything but the files of the family dated today -/
def keepDate (today : Int) : Name → Bool
  | .file (some d) _ => decide (d ≠ today)
  | _ => true

def clean (sch : Scheme) (today : Int) (fs : FS) : FS :=
  match sch with
  | .index => fs.filter (fun p => !matchesFilter p.1)
  | .date => fs.filter (fun p => keepDate today p.1)
  | .dateTime => fs

def insDesc (e : FileInfo) : List FileInfo → List FileInfo
  | [] => [e]
  | x :: xs => if x.idx ≤ e.idx then e :: x :: xs else x :: insDesc e xs

/-- `std::sort` by index; read from the back of the deque: largest index first -/
def sortDesc : List FileInfo → List FileInfo
  | [] => []
  | x :: xs => insDesc x (sortDesc xs)

def scanIndex (p : Name × List Stmt) : Option FileInfo :=
  match p.1 with
  | .file none k => if k ≥ 1 then some ⟨none, k⟩ else none
  | _ => none

def scanDate (today : Int) (p : Name × List Stmt) : Option FileInfo :=
  match p.1 with
  | .file (some d) k => if d = today then some ⟨some d, k⟩ else none
  | _ => none

def recover (sch : Scheme) (today : Int) (fs : FS) : List FileInfo :=
  match sch with
  | .index => sortDesc (fs.filterMap scanIndex)
  | .date => sortDesc (fs.filterMap (scanDate today))
  | .dateTime => []

def restart (z : Nat → Int) (fs : FS) (c : Cfg) (start : Nat) : World :=
  let today := civilDay z start
  let cleaning : Bool := c.removeOld && !c.append
  let fs1 := if cleaning then clean c.scheme today fs else fs
  let rec0 := if !cleaning && c.append then recover c.scheme today fs else []
  let next := if c.freq ≠ .disabled then initialRot z c start else 0
  -- open_file(_filename, mode): "w" truncates, "a" keeps what is there
  let fs2 := if c.append then (match fs1.get curName with
                               | some _ => fs1
                               | none => fs1.put curName [])
             else fs1.put curName []
  { fs := fs2,
    sink := { cfg := c, created := rec0 ++ [curInfo], nextRot := next, openTs := start,
              fileSize := bytes ((fs2.get curName).getD []) } }

/-! ### histories -/

inductive Op
  | write (st : Stmt) (ts : Nat)
  | restart (c : Cfg) (start : Nat)
  deriving Repr

def step (P : Params) (z : Nat → Int) (w : World) : Op → World
  | .write st ts => write P z w st ts
  | .restart c start => restart z w.fs c start

def run (P : Params) (z : Nat → Int) : World → List Op → World
  | w, [] => w
  | w, op :: ops => run P z (step P z w op) ops

/-- content of a tracked file -/
def content (fs : FS) (e : FileInfo) : List Stmt := (fs.get e.name).getD []

/-- the retained files read as the sink's bookkeeping orders them: oldest rotated file first, current file last -/
def diskSeq (w : World) : List Stmt := w.sink.created.flatMap (content w.fs)

/-! ### configuration validation (`RotatingFileSinkConfig` setters) -/

/-- `set_rotation_max_file_size(v)` accepts -/
def limitAccepted (minLimit v : Nat) : Bool := decide (v ≥ minLimit)

/-- `set_rotation_frequency_and_interval(ch, iv)` accepts -/
def freqAccepted (ch : Char) (iv : Nat) : Option Freq :=
  if ch = 'M' ∨ ch = 'm' then (if iv = 0 then none else some .minutely)
  else if ch = 'H' ∨ ch = 'h' then (if iv = 0 then none else some .hourly)
  else none

/-- `set_rotation_time_daily("HH:MM")` accepts two two-character decimal tokens with HH ≤ 23, MM ≤ 59 -/
def dailyAccepted (s : String) : Option (Nat × Nat) :=
  match s.splitOn ":" with
  | [a, b] =>
    if a.length = 2 ∧ b.length = 2 then
      match a.toNat?, b.toNat? with
      | some h, some m => if h ≤ 23 ∧ m ≤ 59 then some (h, m) else none
      | _, _ => none
    else none
  | _ => none

/-- what the theorems need of a configuration (guaranteed by the setters) -/
def CfgOK (c : Cfg) : Prop :=
  (c.freq = .hourly ∨ c.freq = .minutely → 0 < c.interval) ∧ (c.freq = .daily → c.dailyH ≤ 23 ∧ c.dailyM ≤ 59)

instance (c : Cfg) : Decidable (CfgOK c) := by unfold CfgOK; infer_instance

end Rot
