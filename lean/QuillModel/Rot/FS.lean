import QuillModel.Rot.Model
/-!
The abstract file system as a finite map: `get` after `put` / `del` / `rename` / a sequence of renames.
-/
namespace Rot

theorem FS.get_filter (fs : FS) (p : Name → Bool) (n : Name) :
    FS.get (fs.filter (fun q => p q.1)) n = if p n then FS.get fs n else none := by
  induction fs with
  | nil => simp [FS.get]
  | cons x xs ih =>
    obtain ⟨m, c⟩ := x
    simp only [List.filter_cons]
    by_cases hpm : p m = true
    · simp only [hpm, ↓reduceIte, FS.get, ih]
      by_cases hmn : m = n
      · subst hmn; simp [hpm]
      · simp [hmn]
    · simp only [hpm, Bool.false_eq_true, ↓reduceIte, FS.get, ih]
      by_cases hmn : m = n
      · subst hmn; simp [hpm]
      · simp [hmn]

theorem FS.get_del (fs : FS) (a n : Name) : (fs.del a).get n = if n = a then none else fs.get n := by
  unfold FS.del
  rw [FS.get_filter fs (fun m => decide (m ≠ a)) n]
  by_cases h : n = a <;> simp [h]

theorem FS.get_put (fs : FS) (a : Name) (c : List Stmt) (n : Name) :
    (fs.put a c).get n = if n = a then some c else fs.get n := by
  unfold FS.put
  simp only [FS.get, FS.get_del]
  by_cases h : a = n
  · subst h; simp
  · have : ¬ n = a := fun e => h e.symm
    simp [h, this]

theorem FS.get_rename (fs : FS) (a b : Name) (c : List Stmt) (h : fs.get a = some c) (n : Name) :
    (fs.rename a b).get n = if n = b then some c else if n = a then none else fs.get n := by
  unfold FS.rename
  simp only [h, FS.get_put, FS.get_del]

theorem FS.rename_missing (fs : FS) (a b : Name) (h : fs.get a = none) : fs.rename a b = fs := by
  unfold FS.rename; simp only [h]

/-- sequential renames `(aᵢ, bᵢ)` in which no source is hit by an earlier target, no target is hit twice, sources are
    distinct and exist: the result read as a function. A later target may be an earlier (vacated) source. -/
theorem applyMoves_get :
    ∀ (ms : List (Name × Name)) (fs : FS),
      (ms.map (·.1)).Nodup → (ms.map (·.2)).Nodup →
      ms.Pairwise (fun x y => x.2 ≠ y.1) →
      (∀ m ∈ ms, (fs.get m.1).isSome) →
      ∀ n, (applyMoves fs ms).get n =
        match ms.find? (fun m => decide (m.2 = n)) with
        | some m => fs.get m.1
        | none => if n ∈ ms.map (·.1) then none else fs.get n
  | [], fs, _, _, _, _, n => by simp [applyMoves]
  | (a, b) :: ms, fs, hs, hd, hp, hex, n => by
    have hs' := List.nodup_cons.mp hs
    have hd' := List.nodup_cons.mp hd
    have hp' := List.pairwise_cons.mp hp
    obtain ⟨c, hc⟩ := Option.isSome_iff_exists.mp (hex (a, b) List.mem_cons_self)
    have hc : fs.get a = some c := hc
    have hget := FS.get_rename fs a b c hc
    have hex1 : ∀ m ∈ ms, ((fs.rename a b).get m.1).isSome := by
      intro m hm
      have h1 : m.1 ≠ a := fun e => hs'.1 (List.mem_map.mpr ⟨m, hm, e⟩)
      have h2 : m.1 ≠ b := fun e => hp'.1 m hm e.symm
      rw [hget]; simp only [h1, h2, ↓reduceIte]
      exact hex m (List.mem_cons_of_mem _ hm)
    have ih := applyMoves_get ms (fs.rename a b) hs'.2 hd'.2 hp'.2 hex1 n
    simp only [applyMoves]
    rw [ih]
    simp only [List.find?_cons, List.map_cons, List.mem_cons]
    by_cases hbn : b = n
    · subst hbn
      -- `b` is no later target and no later source
      have hnf : ms.find? (fun m => decide (m.2 = b)) = none := by
        rw [List.find?_eq_none]
        intro m hm
        simp only [decide_eq_true_eq]
        intro e
        exact hd'.1 (List.mem_map.mpr ⟨m, hm, e⟩)
      have hns : b ∉ ms.map (·.1) := by
        intro hmem
        obtain ⟨m, hm, e⟩ := List.mem_map.mp hmem
        exact hp'.1 m hm e.symm
      simp only [hnf, hns, ↓reduceIte, decide_true, hget, hc]
    · simp only [hbn, decide_false]
      cases hf : ms.find? (fun m => decide (m.2 = n)) with
      | some m =>
        have hm := List.mem_of_find?_eq_some hf
        have h1 : m.1 ≠ a := fun e => hs'.1 (List.mem_map.mpr ⟨m, hm, e⟩)
        have h2 : m.1 ≠ b := fun e => hp'.1 m hm e.symm
        simp only [hget, h1, h2, ↓reduceIte]
      | none =>
        simp only
        by_cases hmem : n ∈ ms.map (·.1)
        · simp only [hmem, ↓reduceIte, or_true]
        · have hnb : ¬ n = b := fun e => hbn e.symm
          by_cases hna : n = a
          · subst hna
            simp only [hmem, ↓reduceIte, hget, hnb, true_or]
          · simp only [hmem, ↓reduceIte, hget, hnb, hna, false_or]

/-- keys of the association list -/
def FS.keys (fs : FS) : List Name := fs.map (·.1)

theorem FS.get_isSome_iff_mem_keys (fs : FS) (n : Name) : (fs.get n).isSome ↔ n ∈ fs.keys := by
  induction fs with
  | nil => simp [FS.get, FS.keys]
  | cons x xs ih =>
    obtain ⟨m, c⟩ := x
    simp only [FS.get, FS.keys, List.map_cons, List.mem_cons]
    by_cases h : m = n
    · subst h; simp
    · have : ¬ n = m := fun e => h e.symm
      simp only [h, ↓reduceIte, this, false_or]
      exact ih

end Rot
