import QuillModel.Rot.Index
/-!
Scheme-independent facts (every naming scheme, every zone function): the current file exists and `_file_size` is its
size; what a write does to the current file; the count of tracked files; the no-clobber check of the Index chain.
-/
namespace Rot

/-- the current file exists and `_file_size` is the number of bytes in it -/
def CurInv (w : World) : Prop := ∃ cont, w.fs.get curName = some cont ∧ w.sink.fileSize = bytes cont

theorem restart_curInv (z : Nat → Int) (fs : FS) (c : Cfg) (start : Nat) : CurInv (restart z fs c start) := by
  unfold CurInv restart
  dsimp only
  by_cases ha : c.append = true
  · simp only [ha, ↓reduceIte, Bool.not_true, Bool.and_false, Bool.false_eq_true]
    split
    · rename_i cont hc
      exact ⟨cont, hc, by simp [hc]⟩
    · exact ⟨[], by simp [FS.get_put], by simp [FS.get_put]⟩
  · simp only [ha, Bool.false_eq_true, ↓reduceIte]
    exact ⟨[], by simp [FS.get_put], by simp [FS.get_put]⟩

/-- `_rotate_files` either leaves everything as it is or ends with a fresh empty current file -/
theorem rotate_cur (P : Params) (z : Nat → Int) (w : World) (ts : Nat) :
    rotate P z w ts = w ∨
      ((rotate P z w ts).fs.get curName = some [] ∧ (rotate P z w ts).sink.fileSize = 0 ∧
        (rotate P z w ts).sink.openTs = ts ∧ stopped w.sink = false ∧
        ∃ cont, w.fs.get curName = some cont ∧ bytes cont ≠ 0) := by
  by_cases hs : stopped w.sink = true
  · left; exact rotate_noop P z w ts (Or.inl hs)
  · have hs' : stopped w.sink = false := by simpa using hs
    cases hc : w.fs.get curName with
    | none => left; unfold rotate; simp [hs', hc]
    | some cont =>
      by_cases hb : bytes cont = 0
      · left; exact rotate_noop P z w ts (Or.inr ⟨cont, hc, hb⟩)
      · right
        rw [rotate_eq P z w ts cont hs' hc hb]
        exact ⟨by simp [FS.get_put], rfl, rfl, hs', cont, rfl, hb⟩

theorem rotate_curInv (P : Params) (z : Nat → Int) (w : World) (ts : Nat) (h : CurInv w) : CurInv (rotate P z w ts) := by
  rcases rotate_cur P z w ts with h1 | ⟨h1, h2, _⟩
  · rw [h1]; exact h
  · exact ⟨[], h1, by rw [h2]; rfl⟩

theorem curInv_of_same {a b : World} (h : SameFiles a b) (hb : CurInv b) : CurInv a := by
  obtain ⟨cont, h1, h2⟩ := hb
  exact ⟨cont, by rw [h.fs]; exact h1, by rw [h.fileSize]; exact h2⟩

theorem prepare_curInv (P : Params) (z : Nat → Int) (w : World) (size ts : Nat) (h : CurInv w) :
    CurInv (prepare P z w size ts) := by
  rcases prepare_cases P z w size ts with hs | hs
  · exact curInv_of_same hs h
  · exact curInv_of_same hs (rotate_curInv P z w ts h)

theorem appendCur_curInv (w : World) (st : Stmt) (h : CurInv w) : CurInv (appendCur w st) := by
  obtain ⟨cont, h1, h2⟩ := h
  refine ⟨cont ++ [st], by simp [appendCur, FS.get_put, h1], ?_⟩
  simp [appendCur, h2, bytes]

theorem write_curInv (P : Params) (z : Nat → Int) (w : World) (st : Stmt) (ts : Nat) (h : CurInv w) :
    CurInv (write P z w st ts) :=
  appendCur_curInv _ st (prepare_curInv P z w st.size ts h)

theorem step_curInv (P : Params) (z : Nat → Int) (w : World) (op : Op) (h : CurInv w) : CurInv (step P z w op) := by
  cases op with
  | write st ts => exact write_curInv P z w st ts h
  | restart c start => exact restart_curInv z w.fs c start

theorem run_curInv (P : Params) (z : Nat → Int) : ∀ (ops : List Op) (w : World), CurInv w → CurInv (run P z w ops)
  | [], _, h => h
  | op :: ops, w, h => run_curInv P z ops _ (step_curInv P z w op h)

theorem IndexInv.curInv {w : World} (h : IndexInv w) : CurInv w := by
  obtain ⟨rest, hr⟩ := h.shape.last
  obtain ⟨cont, hc⟩ := Option.isSome_iff_exists.mp (h.tracked curInfo (by rw [hr]; simp))
  have hc' : w.fs.get curName = some cont := hc
  exact ⟨cont, hc', by rw [h.size, content_cur, hc']; rfl⟩

/-- is the size trigger of `write_log` reached (the time trigger not being due)? -/
def sizeDue (w : World) (size ts : Nat) : Prop :=
  ¬ timeDue w ts ∧ w.sink.cfg.limit ≠ 0 ∧ w.sink.fileSize + size > w.sink.cfg.limit

instance (w : World) (size ts : Nat) : Decidable (sizeDue w size ts) := by unfold sizeDue; infer_instance

/-- `prepare` when neither trigger fires: nothing happens -/
theorem prepare_idle (P : Params) (z : Nat → Int) (w : World) (size ts : Nat) (ht : ¬ timeDue w ts)
    (hs : ¬ sizeDue w size ts) : prepare P z w size ts = w := by
  unfold prepare timeRotation sizeRotation
  dsimp only
  have h1 : (if w.sink.cfg.freq ≠ Freq.disabled then
      (if ts ≥ w.sink.nextRot then
        ({ rotate P z w ts with sink := { (rotate P z w ts).sink with
            nextRot := advance P.advancesFromSchedule (period w.sink.cfg) w.sink.nextRot ts } }, true)
       else (w, false))
     else (w, false)) = (w, false) := by
    by_cases hf : w.sink.cfg.freq = Freq.disabled
    · simp [hf]
    · have : ¬ ts ≥ w.sink.nextRot := fun hge => ht ⟨hf, hge⟩
      simp [hf, this]
  rw [h1]
  simp only [Bool.not_false, true_and]
  by_cases hl : w.sink.cfg.limit = 0
  · simp [hl]
  · have : ¬ w.sink.fileSize + size > w.sink.cfg.limit := fun hgt => hs ⟨ht, hl, hgt⟩
    simp [hl, this]

/-- `prepare` when a trigger fires: `_rotate_files` is called (and `_next_rotation_time` possibly advanced) -/
theorem prepare_due (P : Params) (z : Nat → Int) (w : World) (size ts : Nat) (h : timeDue w ts ∨ sizeDue w size ts) :
    SameFiles (prepare P z w size ts) (rotate P z w ts) := by
  unfold prepare timeRotation sizeRotation
  dsimp only
  rcases h with ht | ⟨hnt, hl, hgt⟩
  · have hf := ht.1
    have hge : ts ≥ w.sink.nextRot := ht.2
    simp only [ne_eq, hf, not_false_eq_true, ↓reduceIte, hge, Bool.not_true, Bool.false_eq_true, false_and]
    exact ⟨rfl, rfl, rfl, rfl, rfl⟩
  · by_cases hf : w.sink.cfg.freq = Freq.disabled
    · simp only [hf, ne_eq, not_true_eq_false, ↓reduceIte, Bool.not_false, hl, not_false_eq_true, and_self, hgt]
      exact SameFiles.refl _
    · have : ¬ ts ≥ w.sink.nextRot := fun hge => hnt ⟨hf, hge⟩
      simp only [ne_eq, hf, not_false_eq_true, ↓reduceIte, this, Bool.not_false, hl, and_self, hgt]
      exact SameFiles.refl _

/-- the statement goes to the end of the current file, whole -/
theorem write_cur (P : Params) (z : Nat → Int) (w : World) (st : Stmt) (ts : Nat) (h : CurInv w) :
    ∃ pre, (write P z w st ts).fs.get curName = some (pre ++ [st]) ∧
      (prepare P z w st.size ts).fs.get curName = some pre := by
  obtain ⟨pre, h1, _⟩ := prepare_curInv P z w st.size ts h
  exact ⟨pre, by simp [write, appendCur, FS.get_put, h1], h1⟩

/-- number of tracked files after `_rotate_files`: never above `max(before, max_backup_files + 1)` -/
theorem rotate_count (P : Params) (z : Nat → Int) (w : World) (ts : Nat) :
    (rotate P z w ts).sink.created.length ≤ max w.sink.created.length (w.sink.cfg.maxBackup + 1) := by
  rcases rotate_cur P z w ts with h1 | ⟨_, _, _, hs, cont, hc, hb⟩
  · rw [h1]; omega
  · rw [rotate_eq P z w ts cont hs hc hb]
    simp only [List.length_append, List.length_cons, List.length_nil, List.length_map, List.length_drop, excess]
    split <;> (try split) <;> omega

/-- with the repaired deletion loop (`while`), a rotation that takes place leaves at most `max_backup_files` rotated
    files — however many the start had recovered -/
theorem rotate_count_all (P : Params) (z : Nat → Int) (w : World) (ts : Nat) (hP : P.deletesAllExcess = true)
    (hr : rotates w) : (rotate P z w ts).sink.created.length ≤ w.sink.cfg.maxBackup + 1 := by
  obtain ⟨hs, cont, hc, hb⟩ := hr
  rw [rotate_eq P z w ts cont hs hc hb]
  simp only [List.length_append, List.length_cons, List.length_nil, List.length_map, List.length_drop, excess, hP,
    ↓reduceIte]
  split <;> omega

theorem write_count (P : Params) (z : Nat → Int) (w : World) (st : Stmt) (ts : Nat) :
    (write P z w st ts).sink.created.length ≤ max w.sink.created.length (w.sink.cfg.maxBackup + 1) := by
  show (prepare P z w st.size ts).sink.created.length ≤ _
  rcases prepare_cases P z w st.size ts with hs | hs
  · rw [hs.created]; omega
  · rw [hs.created]; exact rotate_count P z w ts

/-- … and so does the write that triggered it -/
theorem write_count_all (P : Params) (z : Nat → Int) (w : World) (st : Stmt) (ts : Nat) (hP : P.deletesAllExcess = true)
    (hdue : timeDue w ts ∨ sizeDue w st.size ts) (hr : rotates w) :
    (write P z w st ts).sink.created.length ≤ w.sink.cfg.maxBackup + 1 := by
  show (prepare P z w st.size ts).sink.created.length ≤ _
  rw [(prepare_due P z w st.size ts hdue).created]
  exact rotate_count_all P z w ts hP hr

/-! ### no rename lands on an existing file (Index scheme) -/

/-- every rename of the sequence finds its target absent at the moment it is performed -/
def movesSafe : FS → List (Name × Name) → Prop
  | _, [] => True
  | fs, (a, b) :: ms => fs.get b = none ∧ movesSafe (fs.rename a b) ms

theorem chain_safe : ∀ (cr : List FileInfo) (fs : FS),
    (∀ e ∈ cr, e.sfx = none) → cr.Pairwise (fun a b => a.idx > b.idx) →
    (∀ e ∈ cr, (fs.get e.name).isSome) →
    (∀ k, (fs.get (.file none k)).isSome → (∃ e ∈ cr, e.idx = k) ∨ (∀ e ∈ cr, k > e.idx + 1)) →
    movesSafe fs (cr.map mvIndex)
  | [], _, _, _, _, _ => trivial
  | b :: t, fs, hn, hp, hex, hfar => by
    have hp' := List.pairwise_cons.mp hp
    have hbn : b.name = .file none b.idx := by simp [FileInfo.name, hn b List.mem_cons_self]
    obtain ⟨c, hc⟩ := Option.isSome_iff_exists.mp (hex b List.mem_cons_self)
    have hfree : fs.get (bump b).name = none := by
      cases hg : fs.get (bump b).name with
      | none => rfl
      | some c' =>
        have hs : (fs.get (.file none (b.idx + 1))).isSome := by
          have : (bump b).name = .file none (b.idx + 1) := rfl
          rw [← this, hg]; rfl
        rcases hfar _ hs with ⟨e, he, heq⟩ | hall
        · rcases List.mem_cons.mp he with rfl | he
          · omega
          · have := hp'.1 e he; omega
        · have := hall b List.mem_cons_self; omega
    refine ⟨hfree, ?_⟩
    have hget := FS.get_rename fs b.name (bump b).name c hc
    apply chain_safe t _ (fun e he => hn e (List.mem_cons_of_mem _ he)) hp'.2
    · intro e he
      have hlt := hp'.1 e he
      have hen : e.name = .file none e.idx := by simp [FileInfo.name, hn e (List.mem_cons_of_mem _ he)]
      rw [hget]
      have h1 : e.name ≠ (bump b).name := by
        rw [hen]; simp only [bump, FileInfo.name, ne_eq, Name.file.injEq, true_and]; omega
      have h2 : e.name ≠ b.name := by
        rw [hen, hbn]; simp only [ne_eq, Name.file.injEq, true_and]; omega
      simp only [h1, h2, ↓reduceIte]
      exact hex e (List.mem_cons_of_mem _ he)
    · intro k hk
      rw [hget] at hk
      by_cases h1 : Name.file none k = (bump b).name
      · right
        simp only [bump, FileInfo.name, Name.file.injEq, true_and] at h1
        intro e he
        have := hp'.1 e he; omega
      · simp only [h1, ↓reduceIte] at hk
        by_cases h2 : Name.file none k = b.name
        · simp [h2] at hk
        · simp only [h2, ↓reduceIte] at hk
          rcases hfar k hk with ⟨e, he, heq⟩ | hall
          · rcases List.mem_cons.mp he with rfl | he
            · exact absurd (by rw [hbn, heq]) h2
            · exact Or.inl ⟨e, he, heq⟩
          · exact Or.inr (fun e he => hall e (List.mem_cons_of_mem _ he))

end Rot
