import QuillModel.Rot.Model
/-!
Rendering of the abstract names as the strings the sink produces, for **any base file name**:
`FileSink::extract_stem_and_extension` (`splitExt`, the rules of `std::filesystem::path::stem/extension`: the extension
starts at the last `.`; a leading `.` alone — hidden file — and the names `.` / `..` have none),
`_append_string_to_filename` / `_append_index_to_filename` (`withExt`), `_get_filename` (`getFilename`: suffix first, then
the index, each time **re-splitting** the name — which is why a base without extension gets `base.<index>.<date>`),
`FileSink::append_datetime_to_filename` (`appendDatetime`, FilenameAppendOption), and the filter of the directory scan of
`_clean_and_recover_files` (`scanSees`: same extension, name starts with `stem.`). File names are `List Char`; the
directory part of a path is not modelled (`extension()` looks at the last component only).
Suffix = `%Y%m%d` of the civil day or `%Y%m%d_%H%M%S` of the civil second (proleptic Gregorian calendar).
The string-level theorems are in `Rot/RenderThm.lean`.
-/
namespace Rot

/-- `(stem, extension)` of a file name as `std::filesystem::path` splits it -/
def splitExt (f : List Char) : List Char × List Char :=
  if f = ['.', '.'] then (f, [])
  else
    let r := f.reverse
    let e := r.takeWhile (· ≠ '.')
    match r.dropWhile (· ≠ '.') with
    | [] => (f, [])                       -- no dot
    | _ :: stemRev =>
      if stemRev = [] then (f, [])        -- the only dot leads the name: hidden file, no extension
      else (stemRev.reverse, '.' :: e.reverse)

/-- `stem + "." + text + ext` -/
def withExt (f t : List Char) : List Char := (splitExt f).1 ++ '.' :: t ++ (splitExt f).2

/-- `_append_string_to_filename` -/
def appendStr (f t : List Char) : List Char := if t = [] then f else withExt f t

def digits (k : Nat) : List Char := Nat.toDigits 10 k

/-- `_append_index_to_filename` -/
def appendIdx (f : List Char) (k : Nat) : List Char := if k = 0 then f else withExt f (digits k)

/-- `_get_filename(base, index, date_time)` -/
def getFilename (base : List Char) (idx : Nat) (dt : List Char) : List Char := appendIdx (appendStr base dt) idx

/-- `FileSink::append_datetime_to_filename`: `stem + strftime(pattern) + ext` (FilenameAppendOption) -/
def appendDatetime (f stamp : List Char) : List Char := (splitExt f).1 ++ stamp ++ (splitExt f).2

/-- the filter of the directory scans of `_clean_and_recover_files`, applied to a directory entry: same extension as the
    file name handed to the constructor, and the entry's name starts with that name's `stem + "."` -/
def scanSees (ctorName entry : List Char) : Bool :=
  decide ((splitExt entry).2 = (splitExt ctorName).2) && ((splitExt ctorName).1 ++ ['.']).isPrefixOf entry

/-- does the scan see the sink's own first rotated file? `ctorName` = the name handed to the constructor, `base` = the
    name the sink writes to (different when a FilenameAppendOption is set) -/
def scanSeesOwn (ctorName base : List Char) : Bool := scanSees ctorName (getFilename base 1 [])

def pad (w : Nat) (n : Nat) : String :=
  let s := toString n
  String.ofList (List.replicate (w - s.length) '0') ++ s

/-- days since 1970-01-01 → (year, month, day) -/
def civilFromDays (zd : Int) : Int × Nat × Nat :=
  let z := zd + 719468
  let era := z / 146097
  let doe := (z - era * 146097).toNat
  let yoe := (doe - doe / 1460 + doe / 36524 - doe / 146096) / 365
  let y : Int := (yoe : Int) + era * 400
  let doy := doe - (365 * yoe + yoe / 4 - yoe / 100)
  let mp := (5 * doy + 2) / 153
  let d := doy - (153 * mp + 2) / 5 + 1
  let m := if mp < 10 then mp + 3 else mp - 9
  (if m ≤ 2 then y + 1 else y, m, d)

def renderDay (d : Int) : String :=
  let (y, m, dd) := civilFromDays d
  pad 4 y.toNat ++ pad 2 m ++ pad 2 dd

def renderSec (s : Int) : String :=
  let day := s / 86400
  let r := (s % 86400).toNat
  renderDay day ++ "_" ++ pad 2 (r / 3600) ++ pad 2 (r / 60 % 60) ++ pad 2 (r % 60)

def renderSfx (sch : Scheme) (v : Int) : String :=
  match sch with
  | .dateTime => renderSec v
  | _ => renderDay v

/-- the rendered name of a structured name, for the base file name `base` -/
def renderNameL (base : List Char) (sch : Scheme) : Name → List Char
  | .file sfx idx => getFilename base idx (match sfx with | none => [] | some v => (renderSfx sch v).toList)
  | .junk k => (splitExt base).1 ++ ".x".toList ++ digits k ++ (splitExt base).2
  | .foreign k =>
    match k % 4 with
    | 0 => "other.".toList ++ digits (k / 4 + 1) ++ (splitExt base).2
    | 1 => (splitExt base).1 ++ '.' :: digits (k / 4 + 1) ++ ".txt".toList
    | 2 => (splitExt base).1 ++ "x.".toList ++ digits (k / 4 + 1) ++ (splitExt base).2
    | _ => "notes".toList ++ digits (k / 4) ++ ".md".toList

def renderNameB (base : String) (sch : Scheme) (n : Name) : String := String.ofList (renderNameL base.toList sch n)

/-- base `log.log` (the harness's default) -/
def renderName (sch : Scheme) (n : Name) : String := renderNameB "log.log" sch n

/-- a start whose directory scan cannot see the sink's own rotated files (base without extension: finding F28; with a
    FilenameAppendOption: F29) recovers nothing and cleans nothing — for the bookkeeping it behaves like the DateAndTime
    scheme's start, whatever the scheme -/
def restartBlind (z : Nat → Int) (fs : FS) (c : Cfg) (start : Nat) : World :=
  let w := restart z fs { c with scheme := .dateTime } start
  { w with sink := { w.sink with cfg := c } }

end Rot
