import QuillModel.Rot.Model
/-!
Rendering of the abstract names as the strings `RotatingSink::_get_filename` produces (base `log.log`), used by
the driver only: `log[.<suffix>][.<index>].log`, suffix = `%Y%m%d` of the civil day or `%Y%m%d_%H%M%S` of the civil
second (proleptic Gregorian calendar, civil-from-days).
-/
namespace Rot

def pad (w : Nat) (n : Nat) : String :=
  let s := toString n
  String.ofList (List.replicate (w - s.length) '0') ++ s

/-- days since 1970-01-01 → (year, month, day) -/
def civilFromDays (zd : Int) : Int × Nat × Nat :=
  let z := zd + 719468
  let era := z / 146097
  let doe := (z - era * 146097).toNat
  let yoe := (doe - doe / 1460 + doe / 36524 - doe / 146096) / 365
  let y : Int := (yoe : Int) + era * 400
  let doy := doe - (365 * yoe + yoe / 4 - yoe / 100)
  let mp := (5 * doy + 2) / 153
  let d := doy - (153 * mp + 2) / 5 + 1
  let m := if mp < 10 then mp + 3 else mp - 9
  (if m ≤ 2 then y + 1 else y, m, d)

def renderDay (d : Int) : String :=
  let (y, m, dd) := civilFromDays d
  pad 4 y.toNat ++ pad 2 m ++ pad 2 dd

def renderSec (s : Int) : String :=
  let day := s / 86400
  let r := (s % 86400).toNat
  renderDay day ++ "_" ++ pad 2 (r / 3600) ++ pad 2 (r / 60 % 60) ++ pad 2 (r % 60)

def renderSfx (sch : Scheme) (v : Int) : String :=
  match sch with
  | .dateTime => renderSec v
  | _ => renderDay v

def renderName (sch : Scheme) : Name → String
  | .file sfx idx =>
    "log" ++ (match sfx with | none => "" | some v => "." ++ renderSfx sch v)
          ++ (if idx = 0 then "" else "." ++ toString idx) ++ ".log"
  | .junk k => "log.x" ++ toString k ++ ".log"
  | .foreign k =>
    match k % 4 with
    | 0 => "other." ++ toString (k / 4 + 1) ++ ".log"
    | 1 => "log." ++ toString (k / 4 + 1) ++ ".txt"
    | 2 => "logx." ++ toString (k / 4 + 1) ++ ".log"
    | _ => "notes" ++ toString (k / 4) ++ ".md"

end Rot
