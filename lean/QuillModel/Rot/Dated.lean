import QuillModel.Rot.Generic
/-!
The rename loop for every naming scheme (`chain_generic`, `rotate_generic`) and the inductive invariant of the **Date**
and **DateAndTime** schemes within a run under the premise that the civil suffix (day / second) of the timestamps
does not decrease (helper lemmas for C14).
-/
namespace Rot

theorem moveOf_entryAfter (sch : Scheme) (sfx : Option Int) (e : FileInfo) :
    (moveOf sch sfx e = none ∧ entryAfter sch sfx e = e) ∨
    moveOf sch sfx e = some (e.name, (entryAfter sch sfx e).name) := by
  unfold moveOf entryAfter
  by_cases h1 : sch = .index ∨ e.sfx = sfx
  · right; simp [h1, FileInfo.name]
  · by_cases h2 : e.sfx = none
    · right
      have h1' : ¬ (sch = .index ∨ none = sfx) := by rw [← h2]; exact h1
      simp [h2, h1', FileInfo.name]
    · left; simp [h1, h2]

theorem moveOf_some {sch : Scheme} {sfx : Option Int} {e : FileInfo} {b : Name × Name} (h : moveOf sch sfx e = some b) :
    b = (e.name, (entryAfter sch sfx e).name) := by
  rcases moveOf_entryAfter sch sfx e with ⟨h1, _⟩ | h1
  · rw [h1] at h; simp at h
  · rw [h1] at h; exact (Option.some.inj h).symm

theorem inj_of_nodup_map {α β : Type} (f : α → β) : ∀ (l : List α), (l.map f).Nodup →
    ∀ x ∈ l, ∀ y ∈ l, f x = f y → x = y
  | [], _, _, hx, _, _, _ => by simp at hx
  | a :: l, h, x, hx, y, hy, hxy => by
    simp only [List.map_cons, List.nodup_cons, List.mem_map, not_exists, not_and] at h
    rcases List.mem_cons.mp hx with hxa | hx' <;> rcases List.mem_cons.mp hy with hya | hy'
    · rw [hxa, hya]
    · subst hxa; exact absurd hxy.symm (h.1 y hy')
    · subst hya; exact absurd hxy (h.1 x hx')
    · exact inj_of_nodup_map f l h.2 x hx' y hy' hxy

/-- the file system after the rename loop, read as a function — any scheme -/
theorem chain_generic (sch : Scheme) (sfx : Option Int) (fs : FS) (cr : List FileInfo)
    (hsrc : (cr.map FileInfo.name).Nodup)
    (hdst : (cr.map (fun e => (entryAfter sch sfx e).name)).Nodup)
    (hpw : cr.Pairwise (fun a b => (entryAfter sch sfx a).name ≠ b.name))
    (hex : ∀ e ∈ cr, (fs.get e.name).isSome) :
    (∀ e ∈ cr, (applyMoves fs (cr.filterMap (moveOf sch sfx))).get (entryAfter sch sfx e).name = fs.get e.name) ∧
    (∀ n, (∀ e ∈ cr, n ≠ (entryAfter sch sfx e).name) →
      (applyMoves fs (cr.filterMap (moveOf sch sfx))).get n = if n ∈ cr.map FileInfo.name then none else fs.get n) := by
  have hmem : ∀ x ∈ cr.filterMap (moveOf sch sfx), ∃ e ∈ cr, moveOf sch sfx e = some x ∧
      x = (e.name, (entryAfter sch sfx e).name) := by
    intro x hx
    obtain ⟨e, he, hm⟩ := List.mem_filterMap.mp hx
    exact ⟨e, he, hm, moveOf_some hm⟩
  have h1 : ((cr.filterMap (moveOf sch sfx)).map (·.1)).Nodup := by
    refine List.pairwise_map.mpr (List.Pairwise.filterMap _ ?_ (List.pairwise_map.mp hsrc))
    intro a a' haa b hb b' hb'
    rw [moveOf_some hb, moveOf_some hb']; exact haa
  have h2 : ((cr.filterMap (moveOf sch sfx)).map (·.2)).Nodup := by
    refine List.pairwise_map.mpr (List.Pairwise.filterMap _ ?_ (List.pairwise_map.mp hdst))
    intro a a' haa b hb b' hb'
    rw [moveOf_some hb, moveOf_some hb']; exact haa
  have h3 : (cr.filterMap (moveOf sch sfx)).Pairwise (fun x y => x.2 ≠ y.1) := by
    refine List.Pairwise.filterMap _ ?_ hpw
    intro a a' haa b hb b' hb'
    rw [moveOf_some hb, moveOf_some hb']; exact haa
  have h4 : ∀ m ∈ cr.filterMap (moveOf sch sfx), (fs.get m.1).isSome := by
    intro m hm
    obtain ⟨e, he, _, rfl⟩ := hmem m hm
    exact hex e he
  have key := applyMoves_get _ fs h1 h2 h3 h4
  have injd := inj_of_nodup_map _ cr hdst
  have injs := inj_of_nodup_map _ cr hsrc
  constructor
  · intro e he
    rw [key]
    cases hf : (cr.filterMap (moveOf sch sfx)).find? (fun m => decide (m.2 = (entryAfter sch sfx e).name)) with
    | some x =>
      obtain ⟨e', he', _, rfl⟩ := hmem x (List.mem_of_find?_eq_some hf)
      have hp : (entryAfter sch sfx e').name = (entryAfter sch sfx e).name := by
        have := List.find?_some hf
        exact of_decide_eq_true this
      have : e' = e := injd e' he' e he hp
      subst this; rfl
    | none =>
      simp only
      rw [List.find?_eq_none] at hf
      rcases moveOf_entryAfter sch sfx e with ⟨hm, hfe⟩ | hm
      · rw [hfe]
        have : e.name ∉ (cr.filterMap (moveOf sch sfx)).map (·.1) := by
          intro hmm
          obtain ⟨x, hx, hx1⟩ := List.mem_map.mp hmm
          obtain ⟨e', he', hm', rfl⟩ := hmem x hx
          have : e' = e := injs e' he' e he hx1
          subst this
          rw [hm] at hm'; simp at hm'
        simp only [this, ↓reduceIte]
      · have := hf _ (List.mem_filterMap.mpr ⟨e, he, hm⟩)
        simp at this
  · intro n hn
    rw [key]
    have hf : (cr.filterMap (moveOf sch sfx)).find? (fun m => decide (m.2 = n)) = none := by
      rw [List.find?_eq_none]
      intro x hx hd
      obtain ⟨e, he, _, rfl⟩ := hmem x hx
      exact hn e he (of_decide_eq_true hd).symm
    simp only [hf]
    by_cases hm : n ∈ (cr.filterMap (moveOf sch sfx)).map (·.1)
    · obtain ⟨x, hx, hx1⟩ := List.mem_map.mp hm
      obtain ⟨e, he, _, rfl⟩ := hmem x hx
      have : n ∈ cr.map FileInfo.name := List.mem_map.mpr ⟨e, he, hx1⟩
      simp only [hm, this, ↓reduceIte]
    · simp only [hm, ↓reduceIte]
      by_cases hc : n ∈ cr.map FileInfo.name
      · obtain ⟨e, he, rfl⟩ := List.mem_map.mp hc
        rcases moveOf_entryAfter sch sfx e with ⟨_, hfe⟩ | hmv
        · exact absurd (by rw [hfe]) (hn e he)
        · exact absurd (List.mem_map.mpr ⟨_, List.mem_filterMap.mpr ⟨e, he, hmv⟩, rfl⟩) hm
      · simp only [hc, ↓reduceIte]

end Rot

namespace Rot

/-- what a rotation that takes place does, relative to the state before it, for the per-entry map `f` of the scheme -/
structure RotSpecG (f : FileInfo → FileInfo) (w R : World) (ts : Nat) (kept : List FileInfo) : Prop where
  created : R.sink.created = kept.map f ++ [curInfo]
  moved : ∀ e ∈ kept, R.fs.get (f e).name = w.fs.get e.name
  cur : R.fs.get curName = some []
  only : ∀ sfx k, (R.fs.get (.file sfx k)).isSome →
    (⟨sfx, k⟩ : FileInfo) = curInfo ∨ (∃ e ∈ kept, (⟨sfx, k⟩ : FileInfo) = f e) ∨
      ((w.fs.get (.file sfx k)).isSome ∧ (⟨sfx, k⟩ : FileInfo) ∉ w.sink.created)
  frame : ∀ n, (∀ s k, n ≠ .file s k) → R.fs.get n = w.fs.get n
  fileSize : R.sink.fileSize = 0
  openTs : R.sink.openTs = ts
  cfg : R.sink.cfg = w.sink.cfg
  keys : R.fs.keys.Nodup

theorem rotate_generic (P : Params) (z : Nat → Int) (w : World) (ts : Nat) (cont : List Stmt)
    (hns : stopped w.sink = false) (hcur : w.fs.get curName = some cont) (hb : bytes cont ≠ 0)
    (hne : w.sink.created ≠ [])
    (hsrc : (w.sink.created.map FileInfo.name).Nodup)
    (hdst : (w.sink.created.map (fun e =>
      (entryAfter w.sink.cfg.scheme (newSuffix z w.sink.cfg.scheme w.sink.openTs) e).name)).Nodup)
    (hpw : w.sink.created.Pairwise (fun a b =>
      (entryAfter w.sink.cfg.scheme (newSuffix z w.sink.cfg.scheme w.sink.openTs) a).name ≠ b.name))
    (hnc : ∀ e ∈ w.sink.created,
      (entryAfter w.sink.cfg.scheme (newSuffix z w.sink.cfg.scheme w.sink.openTs) e).name ≠ curName)
    (hex : ∀ e ∈ w.sink.created, (w.fs.get e.name).isSome) (hkeys : w.fs.keys.Nodup) :
    RotSpecG (entryAfter w.sink.cfg.scheme (newSuffix z w.sink.cfg.scheme w.sink.openTs)) w (rotate P z w ts) ts
      (keptOf P w) := by
  rw [rotate_eq P z w ts cont hns hcur hb]
  simp only [List.length_map]
  unfold keptOf
  generalize excess P.deletesAllExcess w.sink.created.length w.sink.cfg.maxBackup = n
  generalize hsfx : newSuffix z w.sink.cfg.scheme w.sink.openTs = sfx at *
  obtain ⟨hA, hB⟩ := chain_generic w.sink.cfg.scheme sfx w.fs w.sink.created hsrc hdst hpw hex
  generalize hfs1 : applyMoves w.fs (w.sink.created.filterMap (moveOf w.sink.cfg.scheme sfx)) = fs1 at hA hB
  have hk1 : fs1.keys.Nodup := by rw [← hfs1]; exact applyMoves_keys_nodup _ _ hkeys
  have honly1 : ∀ s k, (fs1.get (.file s k)).isSome →
      (∃ e ∈ w.sink.created, (⟨s, k⟩ : FileInfo) = entryAfter w.sink.cfg.scheme sfx e) ∨
      ((w.fs.get (.file s k)).isSome ∧ (⟨s, k⟩ : FileInfo) ∉ w.sink.created) := by
    intro s k hk
    by_cases hx : ∃ e ∈ w.sink.created, Name.file s k = (entryAfter w.sink.cfg.scheme sfx e).name
    · obtain ⟨e, he, heq⟩ := hx
      left
      refine ⟨e, he, ?_⟩
      simp only [FileInfo.name, Name.file.injEq] at heq
      cases hfe : entryAfter w.sink.cfg.scheme sfx e with
      | mk s' k' => rw [hfe] at heq; simp only at heq; rw [heq.1, heq.2]
    · right
      have hn : ∀ e ∈ w.sink.created, Name.file s k ≠ (entryAfter w.sink.cfg.scheme sfx e).name :=
        fun e he heq => hx ⟨e, he, heq⟩
      rw [hB _ hn] at hk
      split at hk
      · simp at hk
      · rename_i hnot
        exact ⟨hk, fun hm => hnot (List.mem_map.mpr ⟨_, hm, rfl⟩)⟩
  have hframe1 : ∀ n, (∀ s k, n ≠ .file s k) → fs1.get n = w.fs.get n := by
    intro n hn
    rw [hB n (fun e _ => hn _ _)]
    have : n ∉ w.sink.created.map FileInfo.name := by
      intro hm
      obtain ⟨e, _, rfl⟩ := List.mem_map.mp hm
      exact hn _ _ rfl
    simp only [this, ↓reduceIte]
  have hnd : w.sink.created.Nodup := (List.pairwise_map.mp hsrc).imp (fun {a b} hab heq => hab (by rw [heq]))
  have injd := inj_of_nodup_map _ w.sink.created hdst
  have hdelmem : ∀ x, x ∈ ((w.sink.created.map (entryAfter w.sink.cfg.scheme sfx)).take n).map FileInfo.name ↔
      ∃ e ∈ w.sink.created.take n, x = (entryAfter w.sink.cfg.scheme sfx e).name := by
    intro x
    rw [← List.map_take, List.map_map]
    constructor
    · intro hx; obtain ⟨e, he, rfl⟩ := List.mem_map.mp hx; exact ⟨e, he, rfl⟩
    · rintro ⟨e, he, rfl⟩; exact List.mem_map.mpr ⟨e, he, rfl⟩
  have hkeptfree : ∀ e ∈ w.sink.created.drop n, (entryAfter w.sink.cfg.scheme sfx e).name ∉
      ((w.sink.created.map (entryAfter w.sink.cfg.scheme sfx)).take n).map FileInfo.name := by
    intro e he hx
    obtain ⟨e', he', heq⟩ := (hdelmem _).mp hx
    have : e' = e := injd e' (List.mem_of_mem_take he') e (List.mem_of_mem_drop he) heq.symm
    subst this
    exact not_mem_take_of_mem_drop _ n hnd e' he he'
  have _ := hne
  refine ⟨by rw [List.map_drop], ?_, by simp [FS.get_put], ?_, ?_, rfl, rfl, rfl,
    FS.keys_put_nodup _ _ _ (delAll_keys_nodup _ _ hk1)⟩
  · intro e he
    simp only [FS.get_put, hnc e (List.mem_of_mem_drop he), ↓reduceIte, delAll_get, hkeptfree e he]
    exact hA e (List.mem_of_mem_drop he)
  · intro s k hk
    simp only [FS.get_put] at hk
    split at hk
    · rename_i heq
      left
      simp only [curName, Name.file.injEq] at heq
      simp [curInfo, heq.1, heq.2]
    · rw [delAll_get] at hk
      split at hk
      · simp at hk
      · rename_i hnd'
        right
        rcases honly1 s k hk with ⟨e, he, heq⟩ | hg
        · rcases mem_take_or_drop _ n e he with ht | hd
          · exact absurd ((hdelmem _).mpr ⟨e, ht, by rw [← heq]; rfl⟩) hnd'
          · exact Or.inl ⟨e, hd, heq⟩
        · exact Or.inr hg
  · intro x hx
    have h1 : x ≠ curName := hx _ _
    have h2 : x ∉ ((w.sink.created.map (entryAfter w.sink.cfg.scheme sfx)).take n).map FileInfo.name := by
      intro hm
      obtain ⟨e, _, heq⟩ := (hdelmem _).mp hm
      exact hx _ _ heq
    simp only [FS.get_put, h1, ↓reduceIte, delAll_get, h2]
    exact hframe1 x hx

theorem rotSpecG_diskSeq {f : FileInfo → FileInfo} {w R : World} {ts : Nat} {kept : List FileInfo}
    (s : RotSpecG f w R ts kept) : diskSeq R = kept.flatMap (content w.fs) := by
  unfold diskSeq
  rw [s.created, List.flatMap_append, List.flatMap_map]
  have h1 : kept.flatMap (fun e => content R.fs (f e)) = kept.flatMap (content w.fs) := by
    apply flatMap_congr'
    intro e he
    simp only [content, s.moved e he]
  have h2 : [curInfo].flatMap (content R.fs) = [] := by
    simp only [List.flatMap_cons, List.flatMap_nil, List.append_nil, content_cur, s.cur]; rfl
  show kept.flatMap (fun e => content R.fs (f e)) ++ _ = _
  rw [h1, h2, List.append_nil]

end Rot

namespace Rot

/-! ### Date / DateAndTime: the invariant within a run -/

/-- the civil value a file opened at `ts` gets as its suffix: day number (Date) or second number (DateAndTime) -/
def sfxVal (z : Nat → Int) (sch : Scheme) (ts : Nat) : Int :=
  match sch with
  | .date => civilDay z ts
  | _ => civilSec z ts

theorem newSuffix_dated (z : Nat → Int) (sch : Scheme) (ts : Nat) (h : sch ≠ .index) :
    newSuffix z sch ts = some (sfxVal z sch ts) := by
  cases sch <;> simp_all [newSuffix, sfxVal]

def dOf (e : FileInfo) : Int := e.sfx.getD 0

/-- the order the dated schemes give to two rotated files: earlier date is older, same date: larger index is older -/
def older (a b : FileInfo) : Prop := dOf a < dOf b ∨ (dOf a = dOf b ∧ a.idx > b.idx)

/-- `a` is a rotated (dated) file and `b` is the current file or a newer rotated file -/
def olderC (a b : FileInfo) : Prop := a.sfx.isSome ∧ (b.sfx = none ∨ older a b)

structure DatedInv (z : Nat → Int) (w : World) : Prop where
  scheme : w.sink.cfg.scheme ≠ .index
  last : ∃ rest, w.sink.created = rest ++ [curInfo]
  /-- oldest first in the order of the scheme, the current file last -/
  sorted : w.sink.created.Pairwise olderC
  /-- no tracked file is dated later than the current file will be -/
  bound : ∀ e ∈ w.sink.created, ∀ d, e.sfx = some d → d ≤ sfxVal z w.sink.cfg.scheme w.sink.openTs
  tracked : ∀ e ∈ w.sink.created, (w.fs.get e.name).isSome
  /-- dated files on disk that the sink does not track (earlier runs, earlier days) are dated strictly earlier -/
  ghosts : ∀ d k, (w.fs.get (.file (some d) k)).isSome →
    (⟨some d, k⟩ : FileInfo) ∈ w.sink.created ∨ d < sfxVal z w.sink.cfg.scheme w.sink.openTs
  size : w.sink.fileSize = bytes (content w.fs curInfo)
  keys : w.fs.keys.Nodup

theorem DatedInv.rest_dated {z : Nat → Int} {w : World} (h : DatedInv z w) {e : FileInfo} (he : e ∈ w.sink.created)
    (hs : e.sfx = none) : e = curInfo := by
  obtain ⟨rest, hr⟩ := h.last
  have hp := h.sorted
  rw [hr, List.pairwise_append] at hp
  rw [hr] at he
  rcases List.mem_append.mp he with he | he
  · have := (hp.2.2 e he curInfo (by simp)).1
    rw [hs] at this; simp at this
  · simpa using he

theorem entryAfter_same (sch : Scheme) (S : Int) (e : FileInfo) (hs : sch ≠ .index) (he : e.sfx = some S) :
    entryAfter sch (some S) e = ⟨some S, e.idx + 1⟩ := by
  simp [entryAfter, hs, he]

theorem entryAfter_cur (sch : Scheme) (S : Int) (e : FileInfo) (hs : sch ≠ .index) (he : e.sfx = none) :
    entryAfter sch (some S) e = ⟨some S, e.idx⟩ := by
  simp [entryAfter, hs, he]

theorem entryAfter_other (sch : Scheme) (S d : Int) (e : FileInfo) (hs : sch ≠ .index) (he : e.sfx = some d)
    (hd : d ≠ S) : entryAfter sch (some S) e = e := by
  simp [entryAfter, hs, he, hd]

/-- the facts about one pair of tracked files (`a` before `b`) that every chain premise and the new order follow from -/
theorem dated_pair (sch : Scheme) (S : Int) (hs : sch ≠ .index) (a b : FileInfo) (hab : olderC a b)
    (ha : ∀ d, a.sfx = some d → d ≤ S) (hb : ∀ d, b.sfx = some d → d ≤ S) (hbc : b.sfx = none → b = curInfo) :
    a.name ≠ b.name ∧ (entryAfter sch (some S) a).name ≠ (entryAfter sch (some S) b).name ∧
      (entryAfter sch (some S) a).name ≠ b.name ∧ olderC (entryAfter sch (some S) a) (entryAfter sch (some S) b) := by
  obtain ⟨hda, hrel⟩ := hab
  obtain ⟨da, hda'⟩ := Option.isSome_iff_exists.mp hda
  have hda_le := ha da hda'
  cases hbs : b.sfx with
  | none =>
    have hbcur := hbc hbs
    subst hbcur
    rw [entryAfter_cur sch S curInfo hs rfl]
    by_cases hS : da = S
    · subst hS
      rw [entryAfter_same sch da a hs hda']
      refine ⟨by simp [FileInfo.name, hda', curInfo], by simp [FileInfo.name, curInfo], by simp [FileInfo.name, curInfo],
        rfl, Or.inr (Or.inr ⟨rfl, by simp [curInfo]⟩)⟩
    · rw [entryAfter_other sch S da a hs hda' hS]
      refine ⟨by simp [FileInfo.name, hda', curInfo], by simp [FileInfo.name, hda', curInfo, hS],
        by simp [FileInfo.name, hda', curInfo], hda, Or.inr (Or.inl ?_)⟩
      simp only [dOf, hda', Option.getD_some]; omega
  | some db =>
    have hdb_le := hb db hbs
    have hold : older a b := by
      rcases hrel with h | h
      · rw [hbs] at h; simp at h
      · exact h
    simp only [older, dOf, hda', hbs, Option.getD_some] at hold
    by_cases hSa : da = S
    · subst hSa
      have hdb : db = da := by omega
      subst hdb
      have hidx : a.idx > b.idx := by omega
      rw [entryAfter_same sch db a hs hda', entryAfter_same sch db b hs hbs]
      refine ⟨?_, ?_, ?_, rfl, Or.inr (Or.inr ⟨rfl, by simp; omega⟩)⟩
      · simp only [FileInfo.name, hda', hbs, ne_eq, Name.file.injEq, true_and]; omega
      · simp only [FileInfo.name, ne_eq, Name.file.injEq, true_and]; omega
      · simp only [FileInfo.name, hbs, ne_eq, Name.file.injEq, true_and]; omega
    · rw [entryAfter_other sch S da a hs hda' hSa]
      by_cases hSb : db = S
      · subst hSb
        rw [entryAfter_same sch db b hs hbs]
        refine ⟨?_, ?_, ?_, hda, Or.inr (Or.inl ?_)⟩
        · simp only [FileInfo.name, hda', hbs, ne_eq, Name.file.injEq, Option.some.injEq, not_and]; omega
        · simp only [FileInfo.name, hda', ne_eq, Name.file.injEq, Option.some.injEq, not_and]; omega
        · simp only [FileInfo.name, hda', hbs, ne_eq, Name.file.injEq, Option.some.injEq, not_and]; omega
        · simp only [dOf, hda', Option.getD_some]; omega
      · rw [entryAfter_other sch S db b hs hbs hSb]
        have hne : a.name ≠ b.name := by
          simp only [FileInfo.name, hda', hbs, ne_eq, Name.file.injEq, Option.some.injEq, not_and]; omega
        refine ⟨hne, hne, hne, hda, Or.inr ?_⟩
        simp only [older, dOf, hda', hbs, Option.getD_some]; exact hold

end Rot

namespace Rot

theorem rotate_of_not_rotates' (P : Params) (z : Nat → Int) (w : World) (ts : Nat) (hc : (w.fs.get curName).isSome)
    (hn : ¬ rotates w) : rotate P z w ts = w := by
  apply rotate_noop
  by_cases hs : stopped w.sink = true
  · exact Or.inl hs
  · right
    have hs' : stopped w.sink = false := by simpa using hs
    obtain ⟨cont, hc⟩ := Option.isSome_iff_exists.mp hc
    refine ⟨cont, hc, ?_⟩
    by_cases hb : bytes cont = 0
    · exact hb
    · exact absurd ⟨hs', cont, hc, hb⟩ hn

theorem DatedInv.cur_mem {z : Nat → Int} {w : World} (h : DatedInv z w) : curInfo ∈ w.sink.created := by
  obtain ⟨rest, hr⟩ := h.last; rw [hr]; simp

/-- the pairwise facts of `dated_pair` for the whole deque -/
theorem DatedInv.pairs {z : Nat → Int} {w : World} (h : DatedInv z w) :
    w.sink.created.Pairwise (fun a b =>
      a.name ≠ b.name ∧
      (entryAfter w.sink.cfg.scheme (some (sfxVal z w.sink.cfg.scheme w.sink.openTs)) a).name ≠
        (entryAfter w.sink.cfg.scheme (some (sfxVal z w.sink.cfg.scheme w.sink.openTs)) b).name ∧
      (entryAfter w.sink.cfg.scheme (some (sfxVal z w.sink.cfg.scheme w.sink.openTs)) a).name ≠ b.name ∧
      olderC (entryAfter w.sink.cfg.scheme (some (sfxVal z w.sink.cfg.scheme w.sink.openTs)) a)
        (entryAfter w.sink.cfg.scheme (some (sfxVal z w.sink.cfg.scheme w.sink.openTs)) b)) := by
  refine List.Pairwise.imp_of_mem ?_ h.sorted
  intro a b ha hb hab
  exact dated_pair _ _ h.scheme a b hab (h.bound a ha) (h.bound b hb) (h.rest_dated hb)

theorem entryAfter_dated_sfx (sch : Scheme) (S : Int) (e : FileInfo) (hs : sch ≠ .index) :
    ∃ d, (entryAfter sch (some S) e).sfx = some d ∧ (d = S ∨ e.sfx = some d) := by
  cases he : e.sfx with
  | none => exact ⟨S, by rw [entryAfter_cur sch S e hs he], Or.inl rfl⟩
  | some d =>
    by_cases hd : d = S
    · subst hd; exact ⟨d, by rw [entryAfter_same sch d e hs he], Or.inl rfl⟩
    · exact ⟨d, by rw [entryAfter_other sch S d e hs he hd]; exact he, Or.inr rfl⟩

theorem rotate_dated (P : Params) (z : Nat → Int) (w : World) (ts : Nat) (cont : List Stmt) (h : DatedInv z w)
    (hns : stopped w.sink = false) (hcur : w.fs.get curName = some cont) (hb : bytes cont ≠ 0) :
    RotSpecG (entryAfter w.sink.cfg.scheme (some (sfxVal z w.sink.cfg.scheme w.sink.openTs))) w (rotate P z w ts) ts
      (keptOf P w) := by
  have hp := h.pairs
  have hsfx := newSuffix_dated z w.sink.cfg.scheme w.sink.openTs h.scheme
  have key := rotate_generic P z w ts cont hns hcur hb
    (by obtain ⟨rest, hr⟩ := h.last; rw [hr]; simp)
    (List.pairwise_map.mpr (hp.imp (fun hx => hx.1)))
    (by rw [hsfx]; exact List.pairwise_map.mpr (hp.imp (fun hx => hx.2.1)))
    (by rw [hsfx]; exact hp.imp (fun hx => hx.2.2.1))
    (by
      rw [hsfx]
      intro e _
      obtain ⟨d, hd, _⟩ := entryAfter_dated_sfx w.sink.cfg.scheme (sfxVal z w.sink.cfg.scheme w.sink.openTs) e h.scheme
      simp [FileInfo.name, curName, hd])
    h.tracked h.keys
  rw [hsfx] at key
  exact key

theorem DatedInv.of_rotSpecG {z : Nat → Int} {w R : World} {ts : Nat} {kept : List FileInfo} (h : DatedInv z w)
    (hk : kept.Sublist w.sink.created)
    (s : RotSpecG (entryAfter w.sink.cfg.scheme (some (sfxVal z w.sink.cfg.scheme w.sink.openTs))) w R ts kept)
    (hmono : sfxVal z w.sink.cfg.scheme w.sink.openTs ≤ sfxVal z w.sink.cfg.scheme ts) : DatedInv z R := by
  have hmem : ∀ e ∈ kept, e ∈ w.sink.created := fun e he => hk.subset he
  have hsch : R.sink.cfg.scheme = w.sink.cfg.scheme := by rw [s.cfg]
  refine ⟨by rw [hsch]; exact h.scheme, ⟨_, s.created⟩, ?_, ?_, ?_, ?_, ?_, s.keys⟩
  · rw [s.created, List.pairwise_append]
    refine ⟨List.pairwise_map.mpr ((h.pairs.sublist hk).imp (fun hx => hx.2.2.2)), by simp, ?_⟩
    intro a ha b hb
    obtain ⟨e, _, rfl⟩ := List.mem_map.mp ha
    simp only [List.mem_singleton] at hb; subst hb
    obtain ⟨d, hd, _⟩ := entryAfter_dated_sfx w.sink.cfg.scheme (sfxVal z w.sink.cfg.scheme w.sink.openTs) e h.scheme
    exact ⟨by rw [hd]; rfl, Or.inl rfl⟩
  · intro e he d hd
    rw [hsch, s.openTs]
    rw [s.created] at he
    rcases List.mem_append.mp he with he | he
    · obtain ⟨e', he', rfl⟩ := List.mem_map.mp he
      obtain ⟨d', hd', hor⟩ := entryAfter_dated_sfx w.sink.cfg.scheme (sfxVal z w.sink.cfg.scheme w.sink.openTs) e' h.scheme
      rw [hd'] at hd
      have : d' = d := Option.some.inj hd
      subst this
      rcases hor with rfl | hor
      · exact hmono
      · have := h.bound e' (hmem e' he') d' hor; omega
    · simp only [List.mem_singleton] at he; subst he; simp [curInfo] at hd
  · intro e he
    rw [s.created] at he
    rcases List.mem_append.mp he with he | he
    · obtain ⟨e', he', rfl⟩ := List.mem_map.mp he
      rw [s.moved e' he']
      exact h.tracked e' (hmem e' he')
    · simp only [List.mem_singleton] at he; subst he
      show (R.fs.get curName).isSome
      rw [s.cur]; rfl
  · intro d k hk'
    rw [s.created, hsch, s.openTs]
    rcases s.only (some d) k hk' with h1 | ⟨e, he, h1⟩ | ⟨h1, h2⟩
    · simp [curInfo] at h1
    · left; rw [h1]; exact List.mem_append_left _ (List.mem_map_of_mem he)
    · right
      rcases h.ghosts d k h1 with h3 | h3
      · exact absurd h3 h2
      · omega
  · rw [s.fileSize, content_cur, s.cur]; rfl

theorem rotate_dated_inv (P : Params) (z : Nat → Int) (w : World) (ts : Nat) (h : DatedInv z w)
    (hmono : sfxVal z w.sink.cfg.scheme w.sink.openTs ≤ sfxVal z w.sink.cfg.scheme ts) :
    DatedInv z (rotate P z w ts) := by
  by_cases hr : rotates w
  · obtain ⟨hns, cont, hc, hb⟩ := hr
    exact h.of_rotSpecG (kept_sublist P w) (rotate_dated P z w ts cont h hns hc hb) hmono
  · rw [rotate_of_not_rotates' P z w ts (h.tracked curInfo h.cur_mem) hr]; exact h

end Rot

namespace Rot

theorem DatedInv.of_same {z : Nat → Int} {a b : World} (h : SameFiles a b) (hb : DatedInv z b) : DatedInv z a := by
  obtain ⟨h1, h2, h3, h4, h5⟩ := h
  exact ⟨by rw [h4]; exact hb.scheme, by rw [h2]; exact hb.last, by rw [h2]; exact hb.sorted,
    by rw [h2, h4, h5]; exact hb.bound, by rw [h1, h2]; exact hb.tracked, by rw [h1, h2, h4, h5]; exact hb.ghosts,
    by rw [h1, h3]; exact hb.size, by rw [h1]; exact hb.keys⟩

theorem DatedInv.rest_ne_cur {z : Nat → Int} {w : World} (h : DatedInv z w) :
    ∃ rest, w.sink.created = rest ++ [curInfo] ∧ ∀ e ∈ rest, e.name ≠ curName := by
  obtain ⟨rest, hr⟩ := h.last
  refine ⟨rest, hr, ?_⟩
  intro e he heq
  have hp := h.sorted
  rw [hr, List.pairwise_append] at hp
  have := (hp.2.2 e he curInfo (by simp)).1
  simp only [FileInfo.name, curName, Name.file.injEq] at heq
  rw [heq.1] at this; simp at this

theorem appendCur_dated_inv (z : Nat → Int) (w : World) (st : Stmt) (h : DatedInv z w) :
    DatedInv z (appendCur w st) := by
  unfold appendCur
  refine ⟨h.scheme, h.last, h.sorted, h.bound, ?_, ?_, ?_, FS.keys_put_nodup _ _ _ h.keys⟩
  · intro e he
    simp only [FS.get_put]
    split
    · rfl
    · exact h.tracked e he
  · intro d k hk
    have hne : Name.file (some d) k ≠ curName := by simp [curName]
    simp only [FS.get_put, hne, ↓reduceIte] at hk
    exact h.ghosts d k hk
  · simp only [content_cur, FS.get_put, ↓reduceIte, Option.getD_some, bytes_append, h.size]
    simp [bytes]

theorem appendCur_diskSeq' (w : World) (st : Stmt)
    (h : ∃ rest, w.sink.created = rest ++ [curInfo] ∧ ∀ e ∈ rest, e.name ≠ curName) :
    diskSeq (appendCur w st) = diskSeq w ++ [st] := by
  obtain ⟨rest, hr, hcur_not⟩ := h
  unfold diskSeq appendCur
  simp only [hr, List.flatMap_append, List.flatMap_cons, List.flatMap_nil, List.append_nil]
  have h1 : rest.flatMap (content (w.fs.put curName ((w.fs.get curName).getD [] ++ [st]))) = rest.flatMap (content w.fs) := by
    apply flatMap_congr'
    intro e he
    simp only [content, FS.get_put, hcur_not e he, ↓reduceIte]
  rw [h1]
  simp only [content, FileInfo.name, curInfo, FS.get_put, curName, ↓reduceIte, Option.getD_some, List.append_assoc]

theorem prepare_dated_inv (P : Params) (z : Nat → Int) (w : World) (size ts : Nat) (h : DatedInv z w)
    (hmono : sfxVal z w.sink.cfg.scheme w.sink.openTs ≤ sfxVal z w.sink.cfg.scheme ts) :
    DatedInv z (prepare P z w size ts) := by
  rcases prepare_cases P z w size ts with hs | hs
  · exact DatedInv.of_same hs h
  · exact DatedInv.of_same hs (rotate_dated_inv P z w ts h hmono)

theorem write_dated_inv (P : Params) (z : Nat → Int) (w : World) (st : Stmt) (ts : Nat) (h : DatedInv z w)
    (hmono : sfxVal z w.sink.cfg.scheme w.sink.openTs ≤ sfxVal z w.sink.cfg.scheme ts) :
    DatedInv z (write P z w st ts) :=
  appendCur_dated_inv z _ st (prepare_dated_inv P z w st.size ts h hmono)

theorem rotate_dated_diskSeq (P : Params) (z : Nat → Int) (w : World) (ts : Nat) (h : DatedInv z w) :
    ∃ n, diskSeq w = (w.sink.created.take n).flatMap (content w.fs) ++ diskSeq (rotate P z w ts) ∧
      (n = 0 ∨ (w.sink.cfg.overwrite = true ∧ w.sink.created.length > w.sink.cfg.maxBackup)) := by
  by_cases hr : rotates w
  · obtain ⟨hns, cont, hc, hb⟩ := hr
    have s := rotate_dated P z w ts cont h hns hc hb
    rw [rotSpecG_diskSeq s]
    refine ⟨excess P.deletesAllExcess w.sink.created.length w.sink.cfg.maxBackup, ?_, ?_⟩
    · unfold keptOf diskSeq
      rw [← List.flatMap_append, List.take_append_drop]
    · by_cases hn : excess P.deletesAllExcess w.sink.created.length w.sink.cfg.maxBackup = 0
      · exact Or.inl hn
      · exact Or.inr ⟨overwrite_of_excess hns hn, excess_pos hn⟩
  · exact ⟨0, by rw [rotate_of_not_rotates' P z w ts (h.tracked curInfo h.cur_mem) hr]; simp, Or.inl rfl⟩

theorem write_dated_diskSeq (P : Params) (z : Nat → Int) (w : World) (st : Stmt) (ts : Nat) (h : DatedInv z w)
    (hmono : sfxVal z w.sink.cfg.scheme w.sink.openTs ≤ sfxVal z w.sink.cfg.scheme ts) :
    ∃ n, diskSeq w ++ [st] = (w.sink.created.take n).flatMap (content w.fs) ++ diskSeq (write P z w st ts) ∧
      (n = 0 ∨ (w.sink.cfg.overwrite = true ∧ w.sink.created.length > w.sink.cfg.maxBackup)) := by
  have h1 : diskSeq (write P z w st ts) = diskSeq (prepare P z w st.size ts) ++ [st] :=
    appendCur_diskSeq' _ st (prepare_dated_inv P z w st.size ts h hmono).rest_ne_cur
  rcases prepare_cases P z w st.size ts with hs | hs
  · exact ⟨0, by rw [h1, diskSeq_of_same hs]; simp, Or.inl rfl⟩
  · obtain ⟨n, h2, h3⟩ := rotate_dated_diskSeq P z w ts h
    exact ⟨n, by rw [h1, diskSeq_of_same hs, ← List.append_assoc, ← h2], h3⟩

/-- `_open_file_timestamp` after a write is what it was, or the record's timestamp -/
theorem write_openTs (P : Params) (z : Nat → Int) (w : World) (st : Stmt) (ts : Nat) :
    (write P z w st ts).sink.openTs = w.sink.openTs ∨ (write P z w st ts).sink.openTs = ts := by
  show (prepare P z w st.size ts).sink.openTs = _ ∨ (prepare P z w st.size ts).sink.openTs = _
  rcases prepare_cases P z w st.size ts with hs | hs
  · left; exact hs.openTs
  · rw [hs.openTs]
    rcases rotate_cur P z w ts with h1 | ⟨_, _, h1, _⟩
    · left; rw [h1]
    · right; exact h1

/-- the civil suffixes of the records of a run never decrease and are not below the open file's -/
def MonoSfx (z : Nat → Int) (sch : Scheme) (v : Int) (l : List (Stmt × Nat)) : Prop :=
  (∀ x ∈ l, v ≤ sfxVal z sch x.2) ∧ l.Pairwise (fun a b => sfxVal z sch a.2 ≤ sfxVal z sch b.2)

theorem run_dated (P : Params) (z : Nat → Int) :
    ∀ (l : List (Stmt × Nat)) (w : World), DatedInv z w →
      MonoSfx z w.sink.cfg.scheme (sfxVal z w.sink.cfg.scheme w.sink.openTs) l →
      DatedInv z (run P z w (l.map (fun p => Op.write p.1 p.2))) ∧
        diskSeq (run P z w (l.map (fun p => Op.write p.1 p.2))) <:+ diskSeq w ++ l.map (·.1)
  | [], w, h, _ => ⟨h, by simp [run]⟩
  | x :: l, w, h, hm => by
    have hp := List.pairwise_cons.mp hm.2
    have hx := hm.1 x List.mem_cons_self
    have hinv := write_dated_inv P z w x.1 x.2 h hx
    have hcfg := write_cfg P z w x.1 x.2
    have hm' : MonoSfx z (write P z w x.1 x.2).sink.cfg.scheme
        (sfxVal z (write P z w x.1 x.2).sink.cfg.scheme (write P z w x.1 x.2).sink.openTs) l := by
      rw [hcfg]
      refine ⟨?_, hp.2⟩
      intro y hy
      rcases write_openTs P z w x.1 x.2 with ho | ho
      · rw [ho]; exact hm.1 y (List.mem_cons_of_mem _ hy)
      · rw [ho]; exact hp.1 y hy
    obtain ⟨ih1, ih2⟩ := run_dated P z l _ hinv hm'
    refine ⟨by simpa [run, step] using ih1, ?_⟩
    simp only [List.map_cons, run, step]
    obtain ⟨n, he, _⟩ := write_dated_diskSeq P z w x.1 x.2 h hx
    have h1 : diskSeq (write P z w x.1 x.2) ++ l.map (·.1) <:+ diskSeq w ++ x.1 :: l.map (·.1) := by
      refine ⟨(w.sink.created.take n).flatMap (content w.fs), ?_⟩
      rw [← List.append_assoc, ← he]; simp
    exact ih2.trans h1

/-- constant offset: the civil suffix is monotone in the timestamp -/
theorem sfxVal_mono (off : Int) (sch : Scheme) (a b : Nat) (h : a ≤ b) :
    sfxVal (fun _ => off) sch a ≤ sfxVal (fun _ => off) sch b := by
  have h1 : a / NS ≤ b / NS := Nat.div_le_div_right h
  have h2 : ((a / NS : Nat) : Int) ≤ ((b / NS : Nat) : Int) := by exact_mod_cast h1
  cases sch <;> simp only [sfxVal, civilDay, civilSec] <;> omega

/-- every target of the rename loop is absent before the rotation or is the source of another rename of the same loop
    (which, by `DatedInv.pairs`, comes earlier in the loop: an earlier target is never a later source) -/
theorem dated_targets_free (z : Nat → Int) (w : World) (h : DatedInv z w) :
    ∀ m ∈ w.sink.created.filterMap (moveOf w.sink.cfg.scheme (newSuffix z w.sink.cfg.scheme w.sink.openTs)),
      w.fs.get m.2 = none ∨
        m.2 ∈ (w.sink.created.filterMap (moveOf w.sink.cfg.scheme (newSuffix z w.sink.cfg.scheme w.sink.openTs))).map (·.1) := by
  intro m hm
  rw [newSuffix_dated z _ _ h.scheme] at hm ⊢
  obtain ⟨e, he, hme⟩ := List.mem_filterMap.mp hm
  have hm2 := moveOf_some hme
  obtain ⟨d, hd, _⟩ := entryAfter_dated_sfx w.sink.cfg.scheme (sfxVal z w.sink.cfg.scheme w.sink.openTs) e h.scheme
  cases hg : w.fs.get m.2 with
  | none => exact Or.inl rfl
  | some c =>
    right
    -- the target is `(S, k)`; it exists, so it is tracked (it is not dated before `S`), so it moves too
    have hS : d = sfxVal z w.sink.cfg.scheme w.sink.openTs := by
      unfold entryAfter at hd
      simp only [h.scheme, false_or] at hd
      split at hd
      · simpa using hd.symm
      · split at hd
        · simpa using hd.symm
        · rename_i h1 h2
          rcases moveOf_entryAfter w.sink.cfg.scheme (some (sfxVal z w.sink.cfg.scheme w.sink.openTs)) e with ⟨hn, _⟩ | hs
          · rw [hn] at hme; simp at hme
          · unfold moveOf at hs; simp [h.scheme, h1, h2] at hs
    have hname : m.2 = .file (some d) (entryAfter w.sink.cfg.scheme (some (sfxVal z w.sink.cfg.scheme w.sink.openTs)) e).idx := by
      rw [hm2]; simp only [FileInfo.name, hd]
    have hex : (w.fs.get (.file (some d) (entryAfter w.sink.cfg.scheme (some (sfxVal z w.sink.cfg.scheme w.sink.openTs)) e).idx)).isSome := by
      rw [← hname, hg]; rfl
    rcases h.ghosts _ _ hex with ht | ht
    · subst hS
      generalize hk : (entryAfter w.sink.cfg.scheme (some (sfxVal z w.sink.cfg.scheme w.sink.openTs)) e).idx = k at *
      have hmv : moveOf w.sink.cfg.scheme (some (sfxVal z w.sink.cfg.scheme w.sink.openTs))
          ⟨some (sfxVal z w.sink.cfg.scheme w.sink.openTs), k⟩ =
          some (Name.file (some (sfxVal z w.sink.cfg.scheme w.sink.openTs)) k,
                Name.file (some (sfxVal z w.sink.cfg.scheme w.sink.openTs)) (k + 1)) := by
        simp only [moveOf, h.scheme, false_or, ↓reduceIte, FileInfo.name]
      exact List.mem_map.mpr ⟨_, List.mem_filterMap.mpr ⟨_, ht, hmv⟩, hname.symm⟩
    · omega

end Rot

namespace Rot

/-! ### start-up under the dated schemes -/

theorem restart_dateTime_inv (z : Nat → Int) (fs : FS) (c : Cfg) (start : Nat) (hs : c.scheme = .dateTime)
    (hk : fs.keys.Nodup)
    (hg : ∀ d k, (fs.get (.file (some d) k)).isSome → d < civilSec z start) :
    DatedInv z (restart z fs c start) := by
  have hcr : (restart z fs c start).sink.created = [curInfo] := by
    simp [restart, hs, recover]
  have hfs1 : (if (c.removeOld && !c.append) = true then clean c.scheme (civilDay z start) fs else fs) = fs := by
    simp [hs, clean]
  have hget : ∀ n, n ≠ curName → (restart z fs c start).fs.get n = fs.get n := by
    intro n hn
    simp only [restart, hfs1]
    split
    · split
      · rfl
      · simp [FS.get_put, hn]
    · simp [FS.get_put, hn]
  have hcurS : ((restart z fs c start).fs.get curName).isSome := by
    simp only [restart, hfs1]
    split
    · split
      · rename_i c' hc'; rw [hc']; rfl
      · simp [FS.get_put]
    · simp [FS.get_put]
  have hkeys : (restart z fs c start).fs.keys.Nodup := by
    simp only [restart, hfs1]
    split
    · split
      · exact hk
      · exact FS.keys_put_nodup _ _ _ hk
    · exact FS.keys_put_nodup _ _ _ hk
  refine ⟨by simp [restart, hs], ⟨[], by rw [hcr]; rfl⟩, by rw [hcr]; simp, ?_, ?_, ?_, rfl, hkeys⟩
  · intro e he d hd
    rw [hcr] at he; simp only [List.mem_singleton] at he; subst he; simp [curInfo] at hd
  · intro e he
    rw [hcr] at he; simp only [List.mem_singleton] at he; subst he; exact hcurS
  · intro d k hk'
    right
    rw [hget _ (by simp [curName])] at hk'
    have := hg d k hk'
    simpa [restart, hs, sfxVal] using this

theorem mem_scanDate (fs : FS) (today : Int) (e : FileInfo) :
    e ∈ fs.filterMap (scanDate today) ↔ e.sfx = some today ∧ (fs.get e.name).isSome := by
  rw [List.mem_filterMap]
  constructor
  · rintro ⟨p, hp, hs⟩
    have hg := FS.get_of_mem fs p hp
    unfold scanDate at hs
    split at hs
    · rename_i d k hk
      split at hs
      · rename_i hd
        simp only [Option.some.injEq] at hs
        subst hs
        subst hd
        exact ⟨rfl, by simpa [FileInfo.name, hk] using hg⟩
      · simp at hs
    · simp at hs
  · rintro ⟨h1, h2⟩
    obtain ⟨c, hc⟩ := FS.mem_of_get fs _ h2
    refine ⟨_, hc, ?_⟩
    cases e with
    | mk sfx idx =>
      simp only at h1
      subst h1
      simp [scanDate, FileInfo.name]

theorem scanDate_distinct (fs : FS) (today : Int) (hk : fs.keys.Nodup) :
    (fs.filterMap (scanDate today)).Pairwise (fun a b => a.idx ≠ b.idx) := by
  have hp : fs.Pairwise (fun p q => p.1 ≠ q.1) := List.pairwise_map.mp hk
  refine List.Pairwise.filterMap (scanDate today) ?_ hp
  intro p q hpq b hb b' hb' heq
  unfold scanDate at hb hb'
  split at hb
  · rename_i d k hk1
    split at hb
    · rename_i hd
      split at hb'
      · rename_i d' k' hk2
        split at hb'
        · rename_i hd'
          simp only [Option.some.injEq] at hb hb'
          subst hb hb'
          simp only at heq
          subst heq hd hd'
          exact hpq (hk1.trans hk2.symm)
        · simp at hb'
      · simp at hb'
    · simp at hb
  · simp at hb

theorem restart_date_inv (z : Nat → Int) (fs : FS) (c : Cfg) (start : Nat) (hs : c.scheme = .date)
    (hmode : c.append = true ∨ c.removeOld = true) (hk : fs.keys.Nodup)
    (hg : ∀ d k, (fs.get (.file (some d) k)).isSome → d ≤ civilDay z start) :
    DatedInv z (restart z fs c start) := by
  by_cases ha : c.append = true
  · -- recover today's files
    have hcr : (restart z fs c start).sink.created =
        sortDesc (fs.filterMap (scanDate (civilDay z start))) ++ [curInfo] := by
      simp [restart, ha, hs, recover]
    have hmemL : ∀ e, e ∈ sortDesc (fs.filterMap (scanDate (civilDay z start))) ↔
        e.sfx = some (civilDay z start) ∧ (fs.get e.name).isSome :=
      fun e => (mem_sortDesc e _).trans (mem_scanDate fs _ e)
    have hsorted := sortDesc_sorted _ (scanDate_distinct fs (civilDay z start) hk)
    have hfs : (restart z fs c start).fs = (match fs.get curName with
                                             | some _ => fs
                                             | none => fs.put curName []) := by
      simp only [restart, ha, Bool.not_true, Bool.and_false, Bool.false_eq_true, ↓reduceIte]
      rfl
    have hget : ∀ n, n ≠ curName → (restart z fs c start).fs.get n = fs.get n := by
      intro n hn
      rw [hfs]
      split
      · rfl
      · simp [FS.get_put, hn]
    have hcurS : ((restart z fs c start).fs.get curName).isSome := by
      rw [hfs]
      split
      · rename_i c' hc'; rw [hc']; rfl
      · simp [FS.get_put]
    refine ⟨by simp [restart, hs], ⟨_, hcr⟩, ?_, ?_, ?_, ?_, rfl, ?_⟩
    · rw [hcr, List.pairwise_append]
      refine ⟨List.Pairwise.imp_of_mem ?_ hsorted, by simp, ?_⟩
      · intro a b ha' hb' hab
        have h1 := ((hmemL a).mp ha').1
        have h2 := ((hmemL b).mp hb').1
        exact ⟨by rw [h1]; rfl, Or.inr (Or.inr ⟨by simp [dOf, h1, h2], hab⟩)⟩
      · intro a ha' b hb'
        simp only [List.mem_singleton] at hb'; subst hb'
        exact ⟨by rw [((hmemL a).mp ha').1]; rfl, Or.inl rfl⟩
    · intro e he d hd
      rw [hcr] at he
      rcases List.mem_append.mp he with he | he
      · have := ((hmemL e).mp he).1
        rw [this] at hd
        have : civilDay z start = d := Option.some.inj hd
        simp [restart, hs, sfxVal, ← this]
      · simp only [List.mem_singleton] at he; subst he; simp [curInfo] at hd
    · intro e he
      rw [hcr] at he
      rcases List.mem_append.mp he with he | he
      · obtain ⟨h1, h2⟩ := (hmemL e).mp he
        rw [hget]
        · exact h2
        · simp [FileInfo.name, curName, h1]
      · simp only [List.mem_singleton] at he; subst he; exact hcurS
    · intro d k hk'
      rw [hget _ (by simp [curName])] at hk'
      by_cases hd : d = civilDay z start
      · left
        rw [hcr]
        exact List.mem_append_left _ ((hmemL _).mpr ⟨by simp [hd], hk'⟩)
      · right
        have := hg d k hk'
        simp only [restart, hs, sfxVal]
        omega
    · rw [hfs]
      split
      · exact hk
      · exact FS.keys_put_nodup _ _ _ hk
  · -- write mode with clean-up: today's files are removed
    have ha' : c.append = false := by simpa using ha
    have hr : c.removeOld = true := by rcases hmode with h | h; exact absurd h ha; exact h
    have hfs : (restart z fs c start).fs =
        FS.put (fs.filter (fun p => keepDate (civilDay z start) p.1)) curName [] := by
      simp [restart, ha', hr, hs, clean]
    have hcr : (restart z fs c start).sink.created = [curInfo] := by
      simp [restart, ha', hr]
    refine ⟨by simp [restart, hs], ⟨[], by rw [hcr]; rfl⟩, by rw [hcr]; simp, ?_, ?_, ?_, rfl, ?_⟩
    · intro e he d hd
      rw [hcr] at he; simp only [List.mem_singleton] at he; subst he; simp [curInfo] at hd
    · intro e he
      rw [hcr] at he; simp only [List.mem_singleton] at he; subst he
      rw [hfs]; simp [FS.get_put, FileInfo.name, curInfo, curName]
    · intro d k hk'
      right
      rw [hfs, FS.get_put] at hk'
      simp only [curName, Name.file.injEq, reduceCtorEq, false_and, ↓reduceIte] at hk'
      rw [FS.get_filter fs (keepDate (civilDay z start))] at hk'
      simp only [keepDate] at hk'
      by_cases hne' : d = civilDay z start
      · simp [hne'] at hk'
      · simp only [ne_eq, hne', not_false_eq_true, decide_true, ↓reduceIte] at hk'
        have := hg d k hk'
        simp only [restart, hs, sfxVal]
        omega
    · rw [hfs]
      exact FS.keys_put_nodup _ _ _ (FS.keys_filter_nodup fs _ hk)

end Rot
