import QuillModel.Rot.Render
/-!
String-level facts about the rendered names (`Rot/Render.lean`), for **every base file name**:
the split into stem and extension, the closed form of `_get_filename` (with an extension: `stem[.date][.index].ext`;
without one: `base[.index][.date]` — the index lands *before* the date because the name is split again), its injectivity,
and which rotated names the directory scan of `_clean_and_recover_files` can see.
-/
namespace Rot

def DotFree (l : List Char) : Prop := '.' ∉ l

instance (l : List Char) : Decidable (DotFree l) := by unfold DotFree; infer_instance

theorem splitExt_of_ext (p e0 : List Char) (hp : p ≠ []) (he : DotFree e0) (h2 : ¬ (p = ['.'] ∧ e0 = [])) :
    splitExt (p ++ '.' :: e0) = (p, '.' :: e0) := by
  have hne : p ++ '.' :: e0 ≠ ['.', '.'] := by
    intro h
    cases p with
    | nil => exact hp rfl
    | cons a p' =>
      cases p' with
      | nil =>
        simp only [List.cons_append, List.nil_append, List.cons.injEq] at h
        exact h2 ⟨by rw [h.1], by simpa using h.2.2⟩
      | cons b p'' =>
        have := congrArg List.length h
        simp at this
  have htw : ∀ a ∈ e0.reverse, (fun c : Char => decide (c ≠ '.')) a = true := by
    intro a ha
    have : a ∈ e0 := List.mem_reverse.mp ha
    simp only [decide_eq_true_eq]
    intro h; subst h; exact he this
  have hrev : (p ++ '.' :: e0).reverse = e0.reverse ++ '.' :: p.reverse := by simp
  unfold splitExt
  simp only [hne, ↓reduceIte, hrev]
  rw [List.dropWhile_append_of_pos htw, List.takeWhile_append_of_pos htw]
  have h1 : List.dropWhile (fun c : Char => decide (c ≠ '.')) ('.' :: p.reverse) = '.' :: p.reverse := by
    rw [List.dropWhile_cons_of_neg]; simp
  have h3 : List.takeWhile (fun c : Char => decide (c ≠ '.')) ('.' :: p.reverse) = [] := by
    rw [List.takeWhile_cons_of_neg]; simp
  rw [h1, h3]
  have : p.reverse ≠ [] := by simpa using hp
  simp [this]

/-- what `extract_stem_and_extension` returns: the two parts concatenate to the name, and the extension is empty or a
    dot followed by a dot-free tail after a non-empty stem -/
theorem splitExt_spec (f : List Char) :
    (splitExt f).1 ++ (splitExt f).2 = f ∧
      ((splitExt f).2 = [] ∨ ∃ e0, (splitExt f).2 = '.' :: e0 ∧ DotFree e0 ∧ (splitExt f).1 ≠ [] ∧
        ¬ ((splitExt f).1 = ['.'] ∧ e0 = [])) := by
  unfold splitExt
  by_cases h0 : f = ['.', '.']
  · simp [h0]
  · simp only [h0, ↓reduceIte]
    have hsplit := List.takeWhile_append_dropWhile (p := fun c : Char => decide (c ≠ '.')) (l := f.reverse)
    generalize hdw : List.dropWhile (fun c : Char => decide (c ≠ '.')) f.reverse = dw at hsplit
    generalize htk : List.takeWhile (fun c : Char => decide (c ≠ '.')) f.reverse = tk at hsplit
    have htkfree : DotFree tk.reverse := by
      intro hm
      have : '.' ∈ tk := List.mem_reverse.mp hm
      rw [← htk] at this
      have hall := List.all_takeWhile (p := fun c : Char => decide (c ≠ '.')) (l := f.reverse)
      rw [List.all_eq_true] at hall
      have := hall _ this
      simp at this
    cases dw with
    | nil => simp
    | cons a stemRev =>
      have ha : a = '.' := by
        have := List.head?_dropWhile_not (fun c : Char => decide (c ≠ '.')) f.reverse
        rw [hdw] at this
        simpa using this
      subst ha
      by_cases hs : stemRev = []
      · simp [hs]
      · simp only [hs, ↓reduceIte]
        have hf : f = stemRev.reverse ++ '.' :: tk.reverse := by
          have := congrArg List.reverse hsplit
          simp only [List.reverse_append, List.reverse_cons, List.reverse_reverse, List.append_assoc,
            List.singleton_append] at this
          exact this.symm
        refine ⟨hf.symm, Or.inr ⟨tk.reverse, rfl, htkfree, by simpa using hs, ?_⟩⟩
        rintro ⟨h1, h2⟩
        apply h0
        rw [hf, h1, h2]; rfl

/-- the part of a rendered name between stem and extension when the base has an extension: `[.date][.index]` -/
def midA (i : Nat) (d : List Char) : List Char :=
  (if d = [] then [] else '.' :: d) ++ (if i = 0 then [] else '.' :: digits i)

/-- … and what follows the base when it has none: `[.index][.date]` -/
def midB (i : Nat) (d : List Char) : List Char :=
  (if i = 0 then [] else '.' :: digits i) ++ (if d = [] then [] else '.' :: d)

theorem digits_dotFree (k : Nat) : DotFree (digits k) := by
  intro h
  have := Nat.isDigit_of_mem_toDigits (b := 10) (n := k) (by decide) (by decide) h
  simp [Char.isDigit] at this

theorem digits_inj {a b : Nat} (h : digits a = digits b) : a = b := by
  have := congrArg (fun l => Nat.ofDigitChars 10 l 0) h
  simpa [digits, Nat.ofDigitChars_ten_toDigits] using this

theorem digits_ne_nil (k : Nat) : digits k ≠ [] := by simp [digits]

/-- **closed form, base with an extension**: `stem[.date][.index].ext` -/
theorem getFilename_ext (b : List Char) (e0 : List Char) (he : (splitExt b).2 = '.' :: e0) (i : Nat) (d : List Char) :
    getFilename b i d = (splitExt b).1 ++ midA i d ++ (splitExt b).2 := by
  obtain ⟨hcat, hor⟩ := splitExt_spec b
  rcases hor with h | ⟨e0', h1, hfree, hs, hdd⟩
  · rw [he] at h; simp at h
  · have : e0' = e0 := by rw [he] at h1; simpa using h1.symm
    subst this
    unfold getFilename appendStr appendIdx midA
    by_cases hd : d = []
    · by_cases hi : i = 0
      · simp [hd, hi, hcat]
      · simp [hd, hi, withExt]
    · have hsp : splitExt (withExt b d) = ((splitExt b).1 ++ '.' :: d, '.' :: e0') := by
        unfold withExt
        rw [he]
        have := splitExt_of_ext ((splitExt b).1 ++ '.' :: d) e0' (by simp) hfree (by
          rintro ⟨h1', _⟩
          have := congrArg List.length h1'
          simp at this
          have hl : (splitExt b).1.length = 0 := by omega
          exact hs (List.length_eq_zero_iff.mp hl))
        simpa [List.append_assoc] using this
      by_cases hi : i = 0
      · simp [hd, hi, withExt, he]
      · simp only [hd, hi, ↓reduceIte]
        show withExt (withExt b d) (digits i) = _
        rw [withExt, hsp]
        simp [he, List.append_assoc]

/-- **closed form, base without extension** (no dot, or hidden file): `base[.index][.date]` -/
theorem getFilename_noext (b : List Char) (hb : b ≠ []) (he : (splitExt b).2 = []) (i : Nat) (d : List Char)
    (hd : DotFree d) : getFilename b i d = b ++ midB i d := by
  obtain ⟨hcat, _⟩ := splitExt_spec b
  have hs : (splitExt b).1 = b := by rw [he] at hcat; simpa using hcat
  unfold getFilename appendStr appendIdx midB
  by_cases hd0 : d = []
  · by_cases hi : i = 0
    · simp [hd0, hi]
    · simp [hd0, hi, withExt, hs, he]
  · have hsp : splitExt (withExt b d) = (b, '.' :: d) := by
      unfold withExt
      rw [he, hs]
      have := splitExt_of_ext b d hb hd (by rintro ⟨_, h⟩; exact hd0 h)
      simpa using this
    by_cases hi : i = 0
    · simp [hd0, hi, withExt, hs, he]
    · simp only [hd0, hi, ↓reduceIte]
      show withExt (withExt b d) (digits i) = _
      rw [withExt, hsp]
      simp

theorem dot_split {a a' r r' : List Char} (ha : DotFree a) (ha' : DotFree a')
    (h : a ++ '.' :: r = a' ++ '.' :: r') : a = a' ∧ r = r' := by
  induction a generalizing a' with
  | nil =>
    cases a' with
    | nil => simpa using h
    | cons x xs =>
      simp only [List.nil_append, List.cons_append, List.cons.injEq] at h
      exact absurd (by rw [← h.1]; simp) ha'
  | cons y ys ih =>
    cases a' with
    | nil =>
      simp only [List.nil_append, List.cons_append, List.cons.injEq] at h
      exact absurd (by rw [h.1]; simp) ha
    | cons x xs =>
      simp only [List.cons_append, List.cons.injEq] at h
      have := ih (a' := xs) (fun hm => ha (List.mem_cons_of_mem _ hm)) (fun hm => ha' (List.mem_cons_of_mem _ hm)) h.2
      exact ⟨by rw [h.1, this.1], this.2⟩

/-- the names one scheme produces: same kind of suffix (both none, or both a date), or one of them is the current file -/
def SameKind (i : Nat) (d : List Char) (i' : Nat) (d' : List Char) : Prop :=
  (d = [] ↔ d' = []) ∨ (i = 0 ∧ d = []) ∨ (i' = 0 ∧ d' = [])

instance (i : Nat) (d : List Char) (i' : Nat) (d' : List Char) : Decidable (SameKind i d i' d') := by
  unfold SameKind; infer_instance

theorem no_dot_of_eq_append {d x y : List Char} (hd : DotFree d) (h : d = x ++ '.' :: y) : False := by
  apply hd; rw [h]; simp

theorem midA_inj (i i' : Nat) (d d' : List Char) (hd : DotFree d) (hd' : DotFree d') (hk : SameKind i d i' d')
    (h : midA i d = midA i' d') : i = i' ∧ d = d' := by
  unfold midA at h
  unfold SameKind at hk
  by_cases h1 : d = [] <;> by_cases h2 : i = 0 <;> by_cases h3 : d' = [] <;> by_cases h4 : i' = 0 <;>
    simp only [h1, h2, h3, h4, ↓reduceIte, List.append_nil, List.nil_append, List.cons_append, List.cons.injEq,
      true_and, List.nil_eq, List.cons_ne_nil] at h
  all_goals first
    | exact ⟨by omega, by simp_all⟩
    | exact ⟨digits_inj h, by simp_all⟩
    | (exfalso; simp_all; done)
    | (exfalso; exact no_dot_of_eq_append hd h)
    | (exfalso; exact no_dot_of_eq_append hd' h.symm)
    | (have := dot_split hd hd' h; exact ⟨digits_inj this.2, this.1⟩)
    | exact ⟨by simp_all, h⟩

theorem midB_inj (i i' : Nat) (d d' : List Char) (hd : DotFree d) (hd' : DotFree d') (hk : SameKind i d i' d')
    (h : midB i d = midB i' d') : i = i' ∧ d = d' := by
  unfold midB at h
  unfold SameKind at hk
  by_cases h1 : d = [] <;> by_cases h2 : i = 0 <;> by_cases h3 : d' = [] <;> by_cases h4 : i' = 0 <;>
    simp only [h1, h2, h3, h4, ↓reduceIte, List.append_nil, List.nil_append, List.cons_append, List.cons.injEq,
      true_and, List.nil_eq, List.cons_ne_nil] at h
  all_goals first
    | exact ⟨by omega, by simp_all⟩
    | exact ⟨digits_inj h, by simp_all⟩
    | (exfalso; simp_all; done)
    | (exfalso; exact no_dot_of_eq_append hd h)
    | (exfalso; exact no_dot_of_eq_append hd' h.symm)
    | (have := dot_split (digits_dotFree i) (digits_dotFree i') h; exact ⟨digits_inj this.1, this.2⟩)
    | exact ⟨by simp_all, h⟩

end Rot
