import QuillModel.Rot.RenderThm
import QuillModel.Time.CivilProofs
/-!
Calendar part of the rendered names: `%Y%m%d` / `%Y%m%d_%H%M%S` of a civil day / second (`renderDay`, `renderSec`) written
with zero-padded decimals is dot-free, non-empty and — from the epoch on — injective, through the civil round trip
`Time.daysFromCivil_civilFromDays` (the calendar of C13). Used by `C14_rendered_names_distinct`.
-/namespace Rot

theorem civil_eq (n : Nat) :
    civilFromDays (n : Int) =
      (((Time.civilFromDays n).year : Int), (Time.civilFromDays n).mon, (Time.civilFromDays n).day) := by
  have he : ((n : Int) + 719468) / 146097 = (((n + 719468) / 146097 : Nat) : Int) := by omega
  have hd : (((n : Int) + 719468) - (((n + 719468) / 146097 : Nat) : Int) * 146097).toNat = (n + 719468) % 146097 := by omega
  simp only [civilFromDays, Time.civilFromDays, he, hd]
  generalize (n + 719468) % 146097 = doe
  generalize (n + 719468) / 146097 = era
  generalize (doe - doe / 1460 + doe / 36524 - doe / 146096) / 365 = yoe
  generalize (5 * (doe - (365 * yoe + yoe / 4 - yoe / 100)) + 2) / 153 = mp
  clear he hd
  refine Prod.ext ?_ rfl
  dsimp only
  by_cases h1 : mp < 10
  · simp only [h1, ↓reduceIte]
    by_cases h2 : mp + 3 ≤ 2
    · simp only [h2, ↓reduceIte]; omega
    · simp only [h2, ↓reduceIte]; omega
  · simp only [h1, ↓reduceIte]
    by_cases h2 : mp - 9 ≤ 2
    · simp only [h2, ↓reduceIte]; omega
    · simp only [h2, ↓reduceIte]; omega

/-! ### zero-padded decimals -/

def padL (w n : Nat) : List Char := List.replicate (w - (digits n).length) '0' ++ digits n

theorem pad_toList (w n : Nat) : (pad w n).toList = padL w n := by
  have hl : (toString n).length = (Nat.toDigits 10 n).length := by
    rw [← String.length_toList]; simp
  simp only [pad, padL, digits, hl, String.toList_append, String.toList_ofList]
  simp

theorem padL_val (w n : Nat) : Nat.ofDigitChars 10 (padL w n) 0 = n := by
  unfold padL digits
  rw [Nat.ofDigitChars_append, Nat.ofDigitChars_replicate_zero]
  simpa using Nat.ofDigitChars_ten_toDigits (n := n)

theorem padL_inj {w w' a b : Nat} (h : padL w a = padL w' b) : a = b := by
  have := congrArg (fun l => Nat.ofDigitChars 10 l 0) h
  simpa [padL_val] using this

theorem padL_len2 {n : Nat} (h : n < 100) : (padL 2 n).length = 2 := by
  have h1 : (digits n).length ≤ 2 := (Nat.length_toDigits_le_iff (b := 10) (by decide) (by decide)).mpr (by omega)
  simp only [padL, List.length_append, List.length_replicate]
  omega

theorem padL_digit (w n : Nat) : ∀ c ∈ padL w n, c.isDigit = true := by
  intro c hc
  rcases List.mem_append.mp hc with h | h
  · have := (List.mem_replicate.mp h).2; subst this; decide
  · exact Nat.isDigit_of_mem_toDigits (b := 10) (by decide) (by decide) h

theorem padL_ne_nil (w n : Nat) : padL w n ≠ [] := by
  simp [padL, digits]

/-! ### `%Y%m%d` and `%Y%m%d_%H%M%S` -/

theorem renderDay_eq (v : Int) : (renderDay v).toList =
    padL 4 (civilFromDays v).1.toNat ++ padL 2 (civilFromDays v).2.1 ++ padL 2 (civilFromDays v).2.2 := by
  unfold renderDay
  generalize civilFromDays v = p
  obtain ⟨y, m, dd⟩ := p
  simp only [String.toList_append, pad_toList]

theorem renderDay_of (v : Int) (y m d : Nat) (h : civilFromDays v = ((y : Int), m, d)) :
    (renderDay v).toList = padL 4 y ++ padL 2 m ++ padL 2 d := by
  have h1 := renderDay_eq v
  rw [h] at h1
  simpa using h1

theorem renderDay_toList (n : Nat) : (renderDay (n : Int)).toList =
    padL 4 (Time.civilFromDays n).year ++ padL 2 (Time.civilFromDays n).mon ++ padL 2 (Time.civilFromDays n).day :=
  renderDay_of (n : Int) _ _ _ (civil_eq n)

/-- three zero-padded numbers: digits only, not empty -/
theorem ymd_chars (y m d : Nat) : (∀ c ∈ padL 4 y ++ padL 2 m ++ padL 2 d, c.isDigit = true) ∧
    padL 4 y ++ padL 2 m ++ padL 2 d ≠ [] := by
  constructor
  · intro c hc
    simp only [List.mem_append] at hc
    rcases hc with (h | h) | h <;> exact padL_digit _ _ c h
  · intro h
    exact padL_ne_nil _ _ (List.append_eq_nil_iff.mp (List.append_eq_nil_iff.mp h).1).1

theorem renderDay_chars' (v : Int) : (∀ c ∈ (renderDay v).toList, c.isDigit = true) ∧ (renderDay v).toList ≠ [] := by
  rw [renderDay_eq]
  generalize (civilFromDays v).1.toNat = y
  generalize (civilFromDays v).2.1 = m
  generalize (civilFromDays v).2.2 = d
  exact ymd_chars y m d

theorem renderDay_inj {a b : Nat} (h : renderDay (a : Int) = renderDay (b : Int)) : a = b := by
  have h' := congrArg String.toList h
  rw [renderDay_toList, renderDay_toList] at h'
  obtain ⟨_, hm2, _, hd2⟩ := Time.civilFromDays_ranges a
  obtain ⟨_, hm2', _, hd2'⟩ := Time.civilFromDays_ranges b
  obtain ⟨h1, h2⟩ := List.append_inj' h' (by rw [padL_len2 (by omega), padL_len2 (by omega)])
  obtain ⟨h3, h4⟩ := List.append_inj' h1 (by rw [padL_len2 (by omega), padL_len2 (by omega)])
  have e1 := padL_inj h3
  have e2 := padL_inj h4
  have e3 := padL_inj h2
  have := Time.daysFromCivil_civilFromDays a
  rw [e1, e2, e3, Time.daysFromCivil_civilFromDays b] at this
  exact this.symm

theorem renderDay_chars (v : Int) : ∀ c ∈ (renderDay v).toList, c.isDigit = true := (renderDay_chars' v).1

theorem renderSec_toList (n : Nat) : (renderSec (n : Int)).toList =
    (renderDay ((n / 86400 : Nat) : Int)).toList ++ ('_' :: (padL 2 (n % 86400 / 3600) ++ padL 2 (n % 86400 / 60 % 60) ++
      padL 2 (n % 86400 % 60))) := by
  have h1 : (n : Int) / 86400 = ((n / 86400 : Nat) : Int) := by omega
  have h2 : ((n : Int) % 86400).toNat = n % 86400 := by omega
  simp only [renderSec, h1, h2, String.toList_append, pad_toList, List.append_assoc]
  rfl

theorem renderSec_inj {a b : Nat} (h : renderSec (a : Int) = renderSec (b : Int)) : a = b := by
  have h' := congrArg String.toList h
  rw [renderSec_toList, renderSec_toList] at h'
  have l1 : ∀ n : Nat, ('_' :: (padL 2 (n % 86400 / 3600) ++ padL 2 (n % 86400 / 60 % 60) ++ padL 2 (n % 86400 % 60))).length = 7 := by
    intro n
    simp only [List.length_cons, List.length_append]
    rw [padL_len2 (by omega), padL_len2 (by omega), padL_len2 (by omega)]
  obtain ⟨hday, ht⟩ := List.append_inj' h' (by rw [l1, l1])
  have hd := renderDay_inj (String.toList_inj.mp hday)
  simp only [List.cons.injEq, true_and] at ht
  obtain ⟨h1, h2⟩ := List.append_inj' ht (by rw [padL_len2 (by omega), padL_len2 (by omega)])
  obtain ⟨h3, h4⟩ := List.append_inj' h1 (by rw [padL_len2 (by omega), padL_len2 (by omega)])
  have e1 := padL_inj h3
  have e2 := padL_inj h4
  have e3 := padL_inj h2
  omega

theorem renderSec_chars (v : Int) : ∀ c ∈ (renderSec v).toList, c.isDigit = true ∨ c = '_' := by
  intro c hc
  simp only [renderSec, String.toList_append, pad_toList, List.mem_append] at hc
  rcases hc with (((h | h) | h) | h) | h
  · exact Or.inl (renderDay_chars _ c h)
  · right
    have : "_".toList = ['_'] := rfl
    rw [this] at h; simpa using h
  all_goals exact Or.inl (padL_digit _ _ c h)

theorem not_digit_dot : ¬ (Char.isDigit '.' = true) := by decide

theorem renderDay_free (v : Int) : DotFree (renderDay v).toList ∧ (renderDay v).toList ≠ [] := by
  refine ⟨?_, (renderDay_chars' v).2⟩
  generalize hl : (renderDay v).toList = l
  have hc : ∀ c ∈ l, c.isDigit = true := by rw [← hl]; exact (renderDay_chars' v).1
  intro hm
  exact not_digit_dot (hc '.' hm)

theorem renderSec_free (v : Int) : DotFree (renderSec v).toList ∧ (renderSec v).toList ≠ [] := by
  have hc := renderSec_chars v
  have hne : (renderSec v).toList ≠ [] := by
    have h0 := (renderDay_free (v / 86400)).2
    simp only [renderSec, String.toList_append]
    generalize (renderDay (v / 86400)).toList = l at h0
    intro h
    exact h0 (List.append_eq_nil_iff.mp (List.append_eq_nil_iff.mp (List.append_eq_nil_iff.mp (List.append_eq_nil_iff.mp h).1).1).1).1
  refine ⟨?_, hne⟩
  generalize (renderSec v).toList = l at hc
  intro hm
  rcases hc '.' hm with h | h
  · exact not_digit_dot h
  · exact absurd h (by decide)

/-- the suffix strings contain no dot and are not empty — for every value -/
theorem renderSfx_dotFree_ne_nil (sch : Scheme) (v : Int) :
    DotFree (renderSfx sch v).toList ∧ (renderSfx sch v).toList ≠ [] := by
  cases sch with
  | dateTime => exact renderSec_free v
  | index => exact renderDay_free v
  | date => exact renderDay_free v

/-- **the calendar rendering is injective** on instants from the epoch on: `%Y%m%d` on civil days, `%Y%m%d_%H%M%S` on
    civil seconds (via the civil round trip `Time.daysFromCivil_civilFromDays`) -/
theorem renderSfx_inj (sch : Scheme) (v v' : Int) (hv : 0 ≤ v) (hv' : 0 ≤ v') (h : renderSfx sch v = renderSfx sch v') :
    v = v' := by
  obtain ⟨a, rfl⟩ := Int.eq_ofNat_of_zero_le hv
  obtain ⟨b, rfl⟩ := Int.eq_ofNat_of_zero_le hv'
  cases sch with
  | dateTime => simp only [renderSfx] at h; rw [renderSec_inj h]
  | index => simp only [renderSfx] at h; rw [renderDay_inj h]
  | date => simp only [renderSfx] at h; rw [renderDay_inj h]

end Rot
