import QuillModel.Pattern.Stage1
/-! Stage 2: fmt's `vformat_to` on the rewritten string `fmtOf p` with automatic argument indexing. -/
namespace Pattern

theorem emap_nil (x : Except FErr Str) : x.map (fun y => ([] : Str) ++ y) = x := by cases x <;> rfl

theorem emap_map (x : Except FErr Str) (f g : Str → Str) : (x.map f).map g = x.map (fun y => g (f y)) := by
  cases x <;> rfl

theorem vfmt_lit (args : List (Option Str)) : ∀ (l t : Str) (ix : ArgIdx), '{' ∉ l → '}' ∉ l →
    vfmt args (l ++ t) ix .text = (vfmt args t ix .text).map (l ++ ·) := by
  intro l
  induction l with
  | nil => intro t ix _ _; simp only [List.nil_append]; exact (emap_nil _).symm
  | cons c l ih =>
    intro t ix h1 h2
    simp only [List.mem_cons, not_or] at h1 h2
    have hc1 : ¬ c = '{' := fun e => h1.1 e.symm
    have hc2 : ¬ c = '}' := fun e => h2.1 e.symm
    simp only [List.cons_append, vfmt, hc1, hc2, if_false, ih t ix h1.2 h2.2, emap_map]

theorem vfmt_field_acc (args : List (Option Str)) : ∀ (s acc t : Str) (ix : ArgIdx), '}' ∉ s →
    vfmt args (s ++ '}' :: t) ix (.field acc) =
      (match interpField args ix (acc.reverse ++ s) with
       | .ok (v, ix') => (vfmt args t ix' .text).map (v ++ ·)
       | .error e => .error e) := by
  intro s
  induction s with
  | nil => intro acc t ix _; simp only [List.nil_append, vfmt, if_true, List.append_nil]; rfl
  | cons c s ih =>
    intro acc t ix h
    simp only [List.mem_cons, not_or] at h
    have hc : ¬ c = '}' := fun e => h.1 e.symm
    simp only [List.cons_append, vfmt, hc, if_false, ih (c :: acc) t ix h.2]
    simp

/-- `{}` with the next automatic argument present -/
theorem vfmt_plain_field (args : List (Option Str)) (t : Str) (n : Nat) (v : Str) (hv : getArg args n = some v) :
    vfmt args ('{' :: '}' :: t) (.auto n) .text = (vfmt args t (.auto (n + 1)) .text).map (v ++ ·) := by
  simp [vfmt, interpField, hv, renderArg, Except.map]

/-- `{:spec}` with a printed valid spec -/
theorem vfmt_spec_field (args : List (Option Str)) (t : Str) (n : Nat) (v : Str) (sp : Spec)
    (hsp : sp.valid = true) (hv : getArg args n = some v) :
    vfmt args ('{' :: ':' :: (sp.print ++ '}' :: t)) (.auto n) .text =
      (vfmt args t (.auto (n + 1)) .text).map (applySpec sp v ++ ·) := by
  have h1 : vfmt args ('{' :: ':' :: (sp.print ++ '}' :: t)) (.auto n) .text =
      vfmt args (sp.print ++ '}' :: t) (.auto n) (.field [':']) := by
    simp [vfmt]
  rw [h1, vfmt_field_acc args _ _ _ _ (spec_print_not_mem sp hsp).2]
  simp [interpField, hv, renderArg, parseSpec_print sp hsp, Except.map]

theorem fmtText_spec (a : Attr) (sp : Spec) (t : Str) :
    (Item.field a (some sp)).fmtText ++ t = '{' :: ':' :: (sp.print ++ '}' :: t) := by
  simp [Item.fmtText]

theorem vfmt_items (args : List (Option Str)) (vals : Attr → Str) : ∀ (p : List Item) (n : Nat) (t : Str),
    (∀ it ∈ p, it.wf = true) → NoBrace p →
    (∀ j a, (attrsOf p)[j]? = some a → getArg args (n + j) = some (vals a)) →
    vfmt args (fmtOf p ++ t) (.auto n) .text =
      (vfmt args t (.auto (n + (attrsOf p).length)) .text).map (p.flatMap (render vals) ++ ·) := by
  intro p
  induction p with
  | nil => intro n t _ _ _; simp only [fmtOf, attrsOf, List.flatMap_nil, List.nil_append, List.length_nil, Nat.add_zero]; exact (emap_nil _).symm
  | cons it p ih =>
    intro n t hwf hnb hargs
    have hwf' : ∀ it ∈ p, it.wf = true := fun x hx => hwf x (List.mem_cons_of_mem _ hx)
    have hnb' : NoBrace p := fun x hx => hnb x (List.mem_cons_of_mem _ hx)
    cases it with
    | lit s =>
      have hb := hnb (.lit s) (by simp)
      simp only [Item.noBrace, Bool.and_eq_true, Bool.not_eq_true', List.contains_eq_mem, decide_eq_false_iff_not] at hb
      have := ih n t hwf' hnb' (by simpa [attrsOf] using hargs)
      simp only [fmtOf, List.flatMap_cons, Item.fmtText, attrsOf, render, List.append_assoc] at this ⊢
      rw [vfmt_lit args s _ _ hb.1 hb.2, this, emap_map]
    | field a spec =>
      have hv0 : getArg args n = some (vals a) := by simpa using hargs 0 a (by simp [attrsOf])
      have hargs' : ∀ j b, (attrsOf p)[j]? = some b → getArg args (n + 1 + j) = some (vals b) := by
        intro j b hj
        have := hargs (j + 1) b (by simpa [attrsOf] using hj)
        rwa [show n + (j + 1) = n + 1 + j by omega] at this
      have := ih (n + 1) t hwf' hnb' hargs'
      simp only [fmtOf, List.flatMap_cons, attrsOf, List.length_cons, List.append_assoc] at this ⊢
      rw [show n + ((attrsOf p).length + 1) = n + 1 + (attrsOf p).length by omega]
      cases spec with
      | none =>
        simp only [Item.fmtText, render, List.cons_append, List.nil_append]
        rw [vfmt_plain_field args _ n _ hv0, this, emap_map]
      | some sp =>
        have hsp : sp.valid = true := hwf (.field a (some sp)) (by simp)
        rw [fmtText_spec, vfmt_spec_field args _ n _ sp hsp hv0, this, emap_map]
        simp only [render]

end Pattern
