import QuillModel.Pattern.SpecLemmas
/-! Stage 1: the `%(`…`)` scanner of `_generate_fmt_format_string` on a pattern built from items. -/
namespace Pattern

/-- no `%(` inside -/
def Clean (s : Str) : Prop := findField s = none

theorem clean_nil : Clean [] := rfl

theorem clean_cons {c : Char} {s : Str} :
    Clean (c :: s) ↔ ¬ (c = '%' ∧ s.head? = some '(') ∧ Clean s := by
  unfold Clean
  simp only [findField]
  by_cases h : c = '%' ∧ s.head? = some '('
  · simp [h]
  · simp [h]

theorem clean_of_no_paren : ∀ {s : Str}, '(' ∉ s → Clean s := by
  intro s
  induction s with
  | nil => intro _; exact clean_nil
  | cons c s ih =>
    intro h
    simp only [List.mem_cons, not_or] at h
    rw [clean_cons]
    refine ⟨?_, ih h.2⟩
    rintro ⟨_, hh⟩
    cases s with
    | nil => simp at hh
    | cons d s => simp at hh; subst hh; simp at h

theorem clean_cons_of_tail_no_paren {c : Char} {s : Str} (h : '(' ∉ s) : Clean (c :: s) := by
  rw [clean_cons]
  refine ⟨?_, clean_of_no_paren h⟩
  rintro ⟨_, hh⟩
  cases s with
  | nil => simp at hh
  | cons d s => simp at hh; subst hh; simp at h

theorem clean_cons_of_ne {c : Char} {s : Str} (hc : c ≠ '%') (h : Clean s) : Clean (c :: s) := by
  rw [clean_cons]; exact ⟨fun hh => hc hh.1, h⟩

/-- the first `%(` after a clean prefix -/
theorem findField_append_field : ∀ {a : Str} (r : Str), Clean a → findField (a ++ '%' :: '(' :: r) = some (a, r) := by
  intro a
  induction a with
  | nil => intro r _; simp [findField]
  | cons c a ih =>
    intro r h
    rw [clean_cons] at h
    have hcond : ¬ (c = '%' ∧ (a ++ '%' :: '(' :: r).head? = some '(') := by
      rintro ⟨hc, hh⟩
      cases a with
      | nil => simp at hh
      | cons d a => exact h.1 ⟨hc, by simpa using hh⟩
    simp only [List.cons_append, findField, hcond, if_false, ih r h.2]
    rfl

theorem clean_append : ∀ {a b : Str}, Clean a → Clean b → (a.getLast? ≠ some '%' ∨ b.head? ≠ some '(') → Clean (a ++ b) := by
  intro a
  induction a with
  | nil => intro b _ hb _; simpa using hb
  | cons c a ih =>
    intro b ha hb hj
    rw [clean_cons] at ha
    rw [List.cons_append, clean_cons]
    constructor
    · rintro ⟨hc, hh⟩
      cases a with
      | nil =>
        simp only [List.nil_append] at hh
        rcases hj with hj | hj
        · simp [hc] at hj
        · exact hj hh
      | cons d a => exact ha.1 ⟨hc, by simpa using hh⟩
    · apply ih ha.2 hb
      cases a with
      | nil => left; simp
      | cons d a =>
        rcases hj with hj | hj
        · left; simpa [List.getLast?_cons_cons] using hj
        · right; exact hj

/-! ### facts about attribute names -/

theorem attrOfName_name (a : Attr) : attrOfName a.name = some a := by cases a <;> decide

theorem name_no_colon (a : Attr) : ':' ∉ a.name := by cases a <;> decide

theorem name_no_close (a : Attr) : ')' ∉ a.name := by cases a <;> decide

theorem idx_lt (a : Attr) : a.idx < 16 := by cases a <;> decide

theorem idx_inj {a b : Attr} (h : a.idx = b.idx) : a = b := by
  cases a <;> cases b <;> first | rfl | (simp [Attr.idx] at h)

end Pattern
