import QuillModel.Pattern.Basic
/-! Decimal printing (`digits`) against fmt's `parse_nonnegative_int` (`parseNat`). -/
namespace Pattern

theorem digitVal_digitChar : ∀ d, d < 10 → digitVal (digitChar d) = d := by decide

theorem isDigit_digitChar : ∀ d, d < 10 → isDigit (digitChar d) = true := by decide

theorem digitChar_ne_zero : ∀ d, d < 10 → 0 < d → digitChar d ≠ '0' := by decide

def valStep (acc : Nat) (c : Char) : Nat := acc * 10 + digitVal c

theorem valOfDigits_eq (ds : Str) : valOfDigits ds = ds.foldl valStep 0 := rfl

theorem digitsAux_val : ∀ (fuel n : Nat) (acc : Str), n < fuel →
    (digitsAux fuel n acc).foldl valStep 0 = acc.foldl valStep n := by
  intro fuel
  induction fuel with
  | zero => intro n acc h; omega
  | succ fuel ih =>
    intro n acc h
    simp only [digitsAux]
    split
    · rename_i h10
      simp [List.foldl_cons, valStep, digitVal_digitChar n h10]
    · rename_i h10
      rw [ih (n / 10) _ (by omega)]
      simp only [List.foldl_cons, valStep, digitVal_digitChar (n % 10) (Nat.mod_lt _ (by omega))]
      congr 1; omega

theorem valOfDigits_digits (n : Nat) : valOfDigits (digits n) = n := by
  rw [valOfDigits_eq, digits, digitsAux_val _ _ _ (by omega)]; rfl

theorem digitsAux_all : ∀ (fuel n : Nat) (acc : Str), (∀ c ∈ acc, isDigit c = true) →
    ∀ c ∈ digitsAux fuel n acc, isDigit c = true := by
  intro fuel
  induction fuel with
  | zero => intro n acc h; simpa [digitsAux] using h
  | succ fuel ih =>
    intro n acc h
    simp only [digitsAux]
    split
    · rename_i h10
      intro c hc
      rcases List.mem_cons.mp hc with rfl | hc
      · exact isDigit_digitChar n h10
      · exact h c hc
    · apply ih
      intro c hc
      rcases List.mem_cons.mp hc with rfl | hc
      · exact isDigit_digitChar _ (Nat.mod_lt _ (by omega))
      · exact h c hc

theorem digits_all (n : Nat) : ∀ c ∈ digits n, isDigit c = true :=
  digitsAux_all _ _ _ (by simp)

theorem digitsAux_length : ∀ (fuel n k : Nat) (acc : Str), n < fuel → 0 < k → n < 10 ^ k →
    (digitsAux fuel n acc).length ≤ acc.length + k := by
  intro fuel
  induction fuel with
  | zero => intro n k acc h; omega
  | succ fuel ih =>
    intro n k acc h hk hn
    simp only [digitsAux]
    split
    · simp; omega
    · rename_i h10
      have hk2 : 2 ≤ k := by
        rcases Nat.lt_or_ge k 2 with h | h
        · have : k = 1 := by omega
          subst this; simp at hn; omega
        · exact h
      have : n / 10 < 10 ^ (k - 1) := by
        rw [Nat.div_lt_iff_lt_mul (by omega)]
        have : 10 ^ k = 10 ^ (k - 1) * 10 := by
          rw [← Nat.pow_succ]; congr 1; omega
        omega
      have := ih (n / 10) (k - 1) (digitChar (n % 10) :: acc) (by omega) (by omega) this
      simp at this; omega

theorem digits_length_le (n : Nat) (h : n ≤ intMax) : (digits n).length ≤ 10 := by
  have := digitsAux_length (n + 1) n 10 [] (by omega) (by omega) (by simp [intMax] at h; omega)
  simpa [digits] using this

theorem digitsAux_head : ∀ (fuel n : Nat) (acc : Str), n < fuel → 0 < n →
    ∃ d rest, digitsAux fuel n acc = d :: rest ∧ d ≠ '0' ∧ isDigit d = true := by
  intro fuel
  induction fuel with
  | zero => intro n acc h; omega
  | succ fuel ih =>
    intro n acc h h0
    simp only [digitsAux]
    split
    · rename_i h10
      exact ⟨_, _, rfl, digitChar_ne_zero n h10 h0, isDigit_digitChar n h10⟩
    · exact ih _ _ (by omega) (by omega)

theorem digits_head (n : Nat) (h0 : 0 < n) : ∃ d rest, digits n = d :: rest ∧ d ≠ '0' ∧ isDigit d = true :=
  digitsAux_head _ _ _ (by omega) h0

theorem digitsAux_ne_nil : ∀ (fuel n : Nat) (acc : Str), 0 < fuel → digitsAux fuel n acc ≠ [] := by
  intro fuel
  induction fuel with
  | zero => intro n acc h; omega
  | succ fuel ih =>
    intro n acc _
    simp only [digitsAux]
    split
    · simp
    · rename_i h10
      cases fuel with
      | zero => simp [digitsAux]
      | succ f => exact ih _ _ (by omega)

theorem digits_ne_nil (n : Nat) : digits n ≠ [] := digitsAux_ne_nil _ _ _ (by omega)

/-- `parse_nonnegative_int` reads back what `digits` printed, for every value that fits an `int` -/
theorem parseNat_digits (n : Nat) (h : n ≤ intMax) : parseNat (digits n) = some n := by
  unfold parseNat
  have hl := digits_length_le n h
  rw [valOfDigits_digits]
  split
  · rfl
  · rename_i h9
    have : (digits n).length = 10 := by omega
    simp [this, h]

theorem takeWhile_digits (n : Nat) (rest : Str) (hr : ∀ c, rest.head? = some c → isDigit c = false) :
    (digits n ++ rest).takeWhile isDigit = digits n ∧ (digits n ++ rest).dropWhile isDigit = rest := by
  have hall := digits_all n
  constructor
  · rw [List.takeWhile_append_of_pos hall]
    cases rest with
    | nil => simp
    | cons c r => simp [hr c rfl]
  · rw [List.dropWhile_append_of_pos hall]
    cases rest with
    | nil => simp
    | cons c r => simp [hr c rfl]

end Pattern
