import QuillModel.Pattern.Model
/-! Basic lemmas about the scanners of the pattern model (`splitAtChar`, `findField`, `splitSep`). -/
namespace Pattern

theorem splitAtChar_none {x : Char} : ∀ {s : Str}, splitAtChar x s = none ↔ x ∉ s := by
  intro s
  induction s with
  | nil => simp [splitAtChar]
  | cons c rest ih =>
    simp only [splitAtChar]
    by_cases h : c = x
    · simp [h]
    · simp only [h, if_false, Option.map_eq_none_iff, ih, List.mem_cons]
      constructor
      · intro hn hm; rcases hm with hm | hm
        · exact h hm.symm
        · exact hn hm
      · intro hn hm; exact hn (Or.inr hm)

theorem splitAtChar_some {x : Char} : ∀ {s l r : Str}, splitAtChar x s = some (l, r) → s = l ++ x :: r ∧ x ∉ l := by
  intro s
  induction s with
  | nil => intro l r h; simp [splitAtChar] at h
  | cons c rest ih =>
    intro l r h
    simp only [splitAtChar] at h
    by_cases hc : c = x
    · simp only [hc, if_true, Option.some.injEq, Prod.mk.injEq] at h
      obtain ⟨rfl, rfl⟩ := h
      simp [hc]
    · simp only [hc, if_false, Option.map_eq_some_iff] at h
      obtain ⟨⟨l', r'⟩, h1, h2⟩ := h
      simp only [Prod.mk.injEq] at h2
      obtain ⟨rfl, rfl⟩ := h2
      obtain ⟨e, hn⟩ := ih h1
      refine ⟨by simp [e], ?_⟩
      simp only [List.mem_cons, not_or]
      exact ⟨fun h => hc h.symm, hn⟩

/-- the first occurrence: nothing before it -/
theorem splitAtChar_append {x : Char} : ∀ (l r : Str), x ∉ l → splitAtChar x (l ++ x :: r) = some (l, r) := by
  intro l
  induction l with
  | nil => intro r _; simp [splitAtChar]
  | cons c l ih =>
    intro r h
    simp only [List.mem_cons, not_or] at h
    have hc : ¬ c = x := fun e => h.1 e.symm
    simp [splitAtChar, hc, ih r h.2]

end Pattern
