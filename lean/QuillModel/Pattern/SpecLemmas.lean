import QuillModel.Pattern.Digits
/-! fmt's spec parser reads back every printed spec of the modelled subset: `parseSpec sp.print = ok sp`. -/
namespace Pattern

def Spec.precText (p : Option Nat) : Str := match p with | some n => '.' :: digits n | none => []
def Spec.widthText (w : Nat) : Str := if w = 0 then [] else digits w
def Spec.faText (f : Option Char) (a : Option Align) : Str :=
  (match f with | some c => [c] | none => []) ++ (match a with | some a => [a.char] | none => [])

theorem Spec.print_eq (sp : Spec) :
    sp.print = Spec.faText sp.fill sp.align ++ (Spec.widthText sp.width ++ Spec.precText sp.prec) := by
  simp only [Spec.print, Spec.faText, Spec.widthText, Spec.precText, List.append_assoc]
  rfl

theorem digits_cons (n : Nat) : ∃ d rest, digits n = d :: rest ∧ isDigit d = true := by
  cases h : digits n with
  | nil => exact absurd h (digits_ne_nil n)
  | cons d rest => exact ⟨d, rest, rfl, digits_all n d (by simp [h])⟩

theorem parseSpecPrec_print (s0 : Spec) (p : Option Nat) (hp : ∀ n, p = some n → n ≤ intMax)
    (h0 : s0.prec = none) : parseSpecPrec s0 (Spec.precText p) = .ok { s0 with prec := p } := by
  cases p with
  | none =>
    simp only [Spec.precText, parseSpecPrec]
    cases s0; simp_all
  | some n =>
    obtain ⟨d, rest, hd, hdig⟩ := digits_cons n
    have htw := takeWhile_digits n [] (by simp)
    simp only [List.append_nil] at htw
    simp only [Spec.precText, parseSpecPrec, if_true]
    rw [hd]
    simp only [hdig, if_true]
    rw [← hd, htw.1, htw.2, parseNat_digits n (hp n rfl)]
    simp [parseSpecEnd]

theorem precText_head (p : Option Nat) : ∀ c, (Spec.precText p).head? = some c → isDigit c = false := by
  intro c h
  cases p with
  | none => simp [Spec.precText] at h
  | some n => simp [Spec.precText] at h; subst h; decide

theorem parseSpecWidth_print (s0 : Spec) (w : Nat) (p : Option Nat) (hw : w ≤ intMax)
    (hp : ∀ n, p = some n → n ≤ intMax) (h0 : s0.prec = none) (hw0 : s0.width = 0) :
    parseSpecWidth s0 (Spec.widthText w ++ Spec.precText p) = .ok { s0 with width := w, prec := p } := by
  by_cases hz : w = 0
  · subst hz
    simp only [Spec.widthText, if_true, List.nil_append]
    have hP := parseSpecPrec_print s0 p hp h0
    cases hpt : Spec.precText p with
    | nil =>
      rw [hpt] at hP
      simp only [parseSpecWidth]
      simp only [parseSpecPrec] at hP
      cases s0; simp_all
    | cons c r =>
      have hc : isDigit c = false := precText_head p c (by simp [hpt])
      rw [hpt] at hP
      simp only [parseSpecWidth, hc, Bool.false_eq_true, false_and, if_false, hP]
      cases s0; simp_all
  · obtain ⟨d, rest, hd, hne, hdig⟩ := digits_head w (by omega)
    have htw := takeWhile_digits w (Spec.precText p) (precText_head p)
    simp only [Spec.widthText, hz, if_false]
    have hP := parseSpecPrec_print { s0 with width := w } p hp h0
    rw [hd] at htw ⊢
    simp only [List.cons_append, parseSpecWidth, hdig, hne, ne_eq, not_false_eq_true, and_self, if_true]
    rw [show d :: (rest ++ Spec.precText p) = (d :: rest) ++ Spec.precText p by simp, htw.1, htw.2, ← hd,
      parseNat_digits w hw]
    simp only [hP]

/-- characters that occur in the width/precision part -/
def numChar (c : Char) : Bool := isDigit c || c == '.'

theorem numChar_facts (c : Char) (h : numChar c = true) :
    alignOf c = none ∧ c.toNat < 128 ∧ c ≠ ')' ∧ c ≠ '}' ∧ c ≠ '{' ∧ c ≠ '(' ∧ c ≠ '%' ∧ c ≠ ':' := by
  simp only [numChar, isDigit, Bool.or_eq_true, decide_eq_true_eq, beq_iff_eq] at h
  rcases h with ⟨h1, h2⟩ | rfl
  · have h1' : 48 ≤ c.toNat := UInt32.le_iff_toNat_le.mp (Char.le_def.mp h1)
    have h2' : c.toNat ≤ 57 := UInt32.le_iff_toNat_le.mp (Char.le_def.mp h2)
    refine ⟨?_, by omega, ?_, ?_, ?_, ?_, ?_, ?_⟩
    · unfold alignOf
      split
      · rename_i e; subst e; simp at h2'
      · split
        · rename_i e; subst e; simp at h2'
        · split
          · rename_i e; subst e; simp at h2'
          · rfl
    all_goals (intro e; subst e; simp at h1' h2')
  · decide

theorem rest_numChar (w : Nat) (p : Option Nat) : ∀ c ∈ Spec.widthText w ++ Spec.precText p, numChar c = true := by
  intro c hc
  rcases List.mem_append.mp hc with h | h
  · unfold Spec.widthText at h
    split at h
    · simp at h
    · simp [numChar, digits_all w c h]
  · cases p with
    | none => simp [Spec.precText] at h
    | some n =>
      simp only [Spec.precText, List.mem_cons] at h
      rcases h with rfl | h
      · decide
      · simp [numChar, digits_all n c h]

theorem alignOf_char (a : Align) : alignOf a.char = some a := by cases a <;> rfl

theorem align_char_facts (a : Align) :
    a.char.toNat < 128 ∧ a.char ≠ ')' ∧ a.char ≠ '}' ∧ a.char ≠ '{' ∧ a.char ≠ '(' ∧ a.char ≠ '%' ∧ a.char ≠ ':' := by
  cases a <;> decide

theorem rest_nil (w : Nat) (p : Option Nat) (h : Spec.widthText w ++ Spec.precText p = []) : w = 0 ∧ p = none := by
  simp only [List.append_eq_nil_iff] at h
  constructor
  · by_cases hz : w = 0
    · exact hz
    · simp [Spec.widthText, hz, digits_ne_nil] at h
  · cases p with
    | none => rfl
    | some n => simp [Spec.precText] at h

theorem print_ascii (sp : Spec) (hv : sp.valid = true) : sp.print.any (fun c => c.toNat ≥ 128) = false := by
  rw [List.any_eq_false]
  intro c hc
  rw [Spec.print_eq] at hc
  simp only [ge_iff_le, decide_eq_true_eq, Nat.not_le]
  rcases List.mem_append.mp hc with h | h
  · simp only [Spec.faText] at h
    rcases List.mem_append.mp h with h | h
    · cases hf : sp.fill with
      | none => simp [hf] at h
      | some f =>
        simp only [hf, List.mem_singleton] at h
        subst h
        simp only [Spec.valid, hf, Bool.and_eq_true, decide_eq_true_eq] at hv
        exact hv.1.1.2
    · cases ha : sp.align with
      | none => simp [ha] at h
      | some a =>
        simp only [ha, List.mem_singleton] at h
        subst h
        exact (align_char_facts a).1
  · exact (numChar_facts c (rest_numChar _ _ c h)).2.1

/-- fmt's parser reads back every valid printed spec -/
theorem parseSpec_print (sp : Spec) (hv : sp.valid = true) : parseSpec sp.print = .ok sp := by
  have hasc := print_ascii sp hv
  obtain ⟨fill, align, w, p⟩ := sp
  have hvw : w ≤ intMax := by
    simp only [Spec.valid, Bool.and_eq_true, decide_eq_true_eq] at hv; exact hv.1.2
  have hvp : ∀ n, p = some n → n ≤ intMax := by
    intro n hn; subst hn
    simp only [Spec.valid, Bool.and_eq_true, decide_eq_true_eq] at hv; exact hv.2
  unfold parseSpec
  rw [hasc]
  simp only [Bool.false_eq_true, if_false]
  rw [Spec.print_eq]
  simp only [Spec.faText]
  have hrest := rest_numChar w p
  generalize hR : Spec.widthText w ++ Spec.precText p = R at hrest
  cases fill with
  | some c =>
    cases align with
    | none => simp [Spec.valid] at hv
    | some a =>
      have hc : c ≠ '{' := by
        simp only [Spec.valid, Bool.and_eq_true, bne_iff_ne, ne_eq, decide_eq_true_eq] at hv
        exact hv.1.1.1.1.1.2
      simp only [List.cons_append, List.nil_append, alignOf_char, hc, if_false]
      rw [← hR, parseSpecWidth_print _ w p hvw hvp rfl rfl]
  | none =>
    cases align with
    | some a =>
      simp only [List.nil_append, List.singleton_append]
      cases R with
      | nil =>
        obtain ⟨rfl, rfl⟩ := rest_nil w p hR
        simp [alignOf_char]
      | cons b r =>
        have hb := (numChar_facts b (hrest b (by simp))).1
        simp only [hb, alignOf_char]
        rw [← hR, parseSpecWidth_print _ w p hvw hvp rfl rfl]
    | none =>
      simp only [List.nil_append]
      cases R with
      | nil =>
        obtain ⟨rfl, rfl⟩ := rest_nil w p hR
        rfl
      | cons a r =>
        have ha := (numChar_facts a (hrest a (by simp))).1
        cases r with
        | nil =>
          simp only [ha]
          rw [← hR, parseSpecWidth_print _ w p hvw hvp rfl rfl]
        | cons b r' =>
          have hb := (numChar_facts b (hrest b (by simp))).1
          simp only [ha, hb]
          rw [← hR, parseSpecWidth_print _ w p hvw hvp rfl rfl]

end Pattern
