import QuillModel.Pattern.Model
/-!
# Which pattern a sink's line is formatted with (logger pattern vs. sink override)

`BackendWorker::_dispatch_transit_event_to_sinks` makes sure the logger has a `PatternFormatter` — on the logger's first
dispatch it *shares* the formatter of any other logger with equal `PatternFormatterOptions`, else creates one — and
`_write_log_statement` then, **per sink**, uses the sink's override formatter when the sink carries
`_override_pattern_formatter_options` (creating it on first use), else the logger's statement.

The rule is `patternFor`. The backend's memory between dispatches (which loggers hold a formatter, with which options:
the "formatter cache" `for_each_logger` searches; which sinks already own their override formatter) is modelled as
`BState`, so that "independent of the dispatch history" is a statement about all states. `hoisted = true` is the variant
that creates the override formatters only inside the "no existing formatter found, create one" block and tests the
formatter pointer on the write path: its outcome depends on which logger was dispatched first.
-/
namespace Pattern

/-- `PatternFormatterOptions` as far as `operator==` can tell two of them apart in the cases considered (timestamp
    pattern and time zone are the same everywhere): format pattern and `add_metadata_to_multi_line_logs` -/
structure FmtOpts where
  pattern : Str
  ml : Bool
  deriving DecidableEq, Repr

structure SinkCfg where
  override : Option FmtOpts          -- `Sink::_override_pattern_formatter_options`
  deriving DecidableEq, Repr

structure LoggerCfg where
  opts : FmtOpts                     -- `LoggerBase::pattern_formatter_options`
  sinks : List Nat                   -- `LoggerBase::sinks`, as indices into the sink table
  deriving DecidableEq, Repr

structure Config where
  loggers : List LoggerCfg
  sinks : List SinkCfg
  deriving DecidableEq, Repr

/-- **The rule**: the sink's override if it has one, else its logger's pattern -/
def patternFor (sink : SinkCfg) (logger : LoggerCfg) : Str := (sink.override.getD logger.opts).pattern

/-- what the backend remembers between dispatches -/
structure BState where
  loggerFmt : List (Nat × FmtOpts)   -- loggers that hold a formatter, with its options (what `for_each_logger` finds)
  sinkFmt : List Nat                 -- sinks whose `_override_pattern_formatter` exists
  deriving DecidableEq, Repr

def BState.init : BState := { loggerFmt := [], sinkFmt := [] }

def hasOverride (cfg : Config) (k : Nat) : Bool := ((cfg.sinks[k]?).bind (·.override)).isSome

/-- first part of `_dispatch_transit_event_to_sinks`: `if (!logger->pattern_formatter) { search; if (!found) create }` -/
def ensureLogger (hoisted : Bool) (cfg : Config) (st : BState) (l : Nat) (lg : LoggerCfg) : BState :=
  if st.loggerFmt.any (·.1 == l) then st
  else if st.loggerFmt.any (·.2 == lg.opts) then
    { st with loggerFmt := (l, lg.opts) :: st.loggerFmt }                           -- shares an existing formatter
  else
    { loggerFmt := (l, lg.opts) :: st.loggerFmt                                      -- creates one …
      sinkFmt := (if hoisted then lg.sinks.filter (fun k => hasOverride cfg k && !st.sinkFmt.contains k) else [])
                   ++ st.sinkFmt }                                                   -- … (variant: and the overrides)

/-- `_write_log_statement`: the pattern each sink of the logger is served with -/
def sinkPatterns (hoisted : Bool) (cfg : Config) (st : BState) (lg : LoggerCfg) : List (Nat × Str) :=
  lg.sinks.filterMap fun k => (cfg.sinks[k]?).map fun sk =>
    (k, if hoisted then (if st.sinkFmt.contains k then patternFor sk lg else lg.opts.pattern)   -- `if (sink->_override_pattern_formatter)`
        else patternFor sk lg)                                  -- `if (sink->_override_pattern_formatter_options) { create if missing; use }`

/-- … and the override formatters that exist afterwards (pinned code: created on first use) -/
def afterWrite (hoisted : Bool) (cfg : Config) (st : BState) (lg : LoggerCfg) : BState :=
  if hoisted then st
  else { st with sinkFmt := lg.sinks.filter (fun k => hasOverride cfg k && !st.sinkFmt.contains k) ++ st.sinkFmt }

/-- one statement of logger `l` dispatched: new backend state, (sink, pattern) for each of the logger's sinks -/
def dispatch1 (hoisted : Bool) (cfg : Config) (st : BState) (l : Nat) : BState × List (Nat × Str) :=
  match cfg.loggers[l]? with
  | none => (st, [])
  | some lg =>
    let st1 := ensureLogger hoisted cfg st l lg
    (afterWrite hoisted cfg st1 lg, sinkPatterns hoisted cfg st1 lg)

/-- a history of dispatches (logger indices, in backend order) -/
def runHistory (hoisted : Bool) (cfg : Config) : BState → List Nat → List (List (Nat × Str))
  | _, [] => []
  | st, l :: ls => (dispatch1 hoisted cfg st l).2 :: runHistory hoisted cfg (dispatch1 hoisted cfg st l).1 ls

/-- the rule, per logger: what `patternFor` says for each of its sinks -/
def ruleFor (cfg : Config) (l : Nat) : List (Nat × Str) :=
  match cfg.loggers[l]? with
  | none => []
  | some lg => lg.sinks.filterMap fun k => (cfg.sinks[k]?).map fun sk => (k, patternFor sk lg)

/-- the statements each sink of logger `l` receives for one log call (message `msg`): the logger's multi-line flag
    decides the split, every piece is formatted with the sink's pattern -/
def callLines (hoisted : Bool) (cfg : Config) (st : BState) (l : Nat) (stmt : Stmt) (mv : MetaView) (msg : Str) :
    List (Nat × List Result) :=
  match cfg.loggers[l]? with
  | none => []
  | some lg => (dispatch1 hoisted cfg st l).2.map fun kp => (kp.1, statements kp.2 stmt mv lg.opts.ml msg)

theorem dispatch1_pinned (cfg : Config) (st : BState) (l : Nat) : (dispatch1 false cfg st l).2 = ruleFor cfg l := by
  unfold dispatch1 ruleFor
  cases cfg.loggers[l]? with
  | none => rfl
  | some lg => simp [sinkPatterns]

theorem runHistory_pinned (cfg : Config) : ∀ (ls : List Nat) (st : BState),
    runHistory false cfg st ls = ls.map (ruleFor cfg) := by
  intro ls
  induction ls with
  | nil => intro _; rfl
  | cons l ls ih => intro st; simp only [runHistory, List.map_cons, dispatch1_pinned, ih]

end Pattern
