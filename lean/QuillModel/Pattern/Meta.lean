import QuillModel.Pattern.Basic
/-! `MacroMetadata` views of `"path:line"` and the runtime-metadata split. -/
namespace Pattern

theorem rfindColon_go_append (a b : Str) : ∀ (i : Nat) (last : Option Nat),
    rfindColon.go (a ++ b) i last = rfindColon.go b (i + a.length) (rfindColon.go a i last) := by
  induction a with
  | nil => intro i last; simp [rfindColon.go]
  | cons c a ih =>
    intro i last
    simp only [List.cons_append, rfindColon.go, ih, List.length_cons]
    congr 1; omega

theorem rfindColon_go_of_not_mem : ∀ (s : Str) (i : Nat) (last : Option Nat), ':' ∉ s → rfindColon.go s i last = last := by
  intro s
  induction s with
  | nil => intros; rfl
  | cons c s ih =>
    intro i last h
    simp only [List.mem_cons, not_or] at h
    have hc : ¬ c = ':' := fun e => h.1 e.symm
    simp [rfindColon.go, hc, ih _ _ h.2]

theorem rfindColon_eq (p line : Str) (h : ':' ∉ line) : rfindColon (p ++ ':' :: line) = some p.length := by
  unfold rfindColon
  rw [rfindColon_go_append]
  simp [rfindColon.go, rfindColon_go_of_not_mem _ _ _ h]

theorem fileNamePos_go_append (a b : Str) : ∀ (i f : Nat),
    fileNamePos.go (a ++ b) i f = fileNamePos.go b (i + a.length) (fileNamePos.go a i f) := by
  induction a with
  | nil => intro i f; simp [fileNamePos.go]
  | cons c a ih =>
    intro i f
    simp only [List.cons_append, fileNamePos.go, ih, List.length_cons]
    congr 1; omega

theorem fileNamePos_go_of_not_mem : ∀ (s : Str) (i f : Nat), '/' ∉ s → fileNamePos.go s i f = f := by
  intro s
  induction s with
  | nil => intros; rfl
  | cons c s ih =>
    intro i f h
    simp only [List.mem_cons, not_or] at h
    have hc : ¬ c = '/' := fun e => h.1 e.symm
    simp [fileNamePos.go, hc, ih _ _ h.2]

/-- `dir` is empty or ends in `/`; nothing after it contains a `/` -/
theorem fileNamePos_eq (dir rest : Str) (hd : dir = [] ∨ dir.getLast? = some '/') (hr : '/' ∉ rest) :
    fileNamePos (dir ++ rest) = dir.length := by
  unfold fileNamePos
  rw [fileNamePos_go_append, fileNamePos_go_of_not_mem _ _ _ hr]
  rcases hd with rfl | hd
  · rfl
  · obtain ⟨d', rfl⟩ : ∃ d', dir = d' ++ ['/'] := by
      have hne : dir ≠ [] := by intro e; simp [e] at hd
      refine ⟨dir.dropLast, ?_⟩
      have := List.dropLast_concat_getLast hne
      rw [List.getLast?_eq_some_getLast hne] at hd
      simp only [Option.some.injEq] at hd
      rw [hd] at this; exact this.symm
    rw [fileNamePos_go_append]
    simp [fileNamePos.go]

/-! ### runtime metadata -/

theorem magicSep_not_prefix (c : Char) (m r : Str) (h : ¬ magicSep <:+: (c :: m)) :
    magicSep.isPrefixOf (c :: (m ++ (magicSep ++ r))) = false := by
  cases hb : magicSep.isPrefixOf (c :: (m ++ (magicSep ++ r))) with
  | false => rfl
  | true =>
    exfalso
    rw [List.isPrefixOf_iff_prefix] at hb
    obtain ⟨t, ht⟩ := hb
    match m, ht with
    | [], ht =>
      simp [magicSep] at ht
    | [d], ht =>
      simp [magicSep] at ht
    | d :: e :: m'', ht =>
      apply h
      refine ⟨[], m'', ?_⟩
      simp [magicSep] at ht ⊢
      exact ⟨ht.1, ht.2.1, ht.2.2.1⟩

theorem splitSep_magic : ∀ (m r : Str), ¬ magicSep <:+: m → splitSep magicSep (m ++ (magicSep ++ r)) = some (m, r) := by
  intro m
  induction m with
  | nil => intro r _; simp [splitSep, magicSep]
  | cons c m ih =>
    intro r h
    have h' : ¬ magicSep <:+: m := fun hi => h (hi.trans (List.infix_cons_iff.mpr (Or.inr (List.infix_refl _))))
    simp only [List.cons_append, splitSep, magicSep_not_prefix c m r h, Bool.false_eq_true, if_false, ih r h']
    rfl

end Pattern
