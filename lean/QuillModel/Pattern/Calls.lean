import QuillModel.Pattern.Compile
/-!
# One `PatternFormatter` instance over a sequence of `format()` calls

`Pattern.format` (Model.lean) describes one call. A formatter lives as long as its logger and handles every statement:
`_args` is a member and keeps, between two calls, whatever the previous call (or, before the first call, `_set_pattern`:
the attribute's own *name*) put into it. This file models the instance as a state machine over calls and proves that
for the pinned code this state is invisible: the outcome of a call is a function of that call alone — in particular the
text substituted for `%(time)` is `TimestampFormatter::format_timestamp` of the call's own timestamp, whatever the
earlier calls were (none, the same timestamp again, timestamp 0, a later or an earlier one).

`memo = true` is the variant of `format()` that refreshes the `%(time)` slot only `if (timestamp != _last_timestamp)`
with `_last_timestamp{0}`: for it the statement is false (witness in `Props/C12.lean`): the first calls with timestamp 0
print the placeholder `time`.
-/
namespace Pattern

/-! ### folds of `List.set` writes: slots that are never written, and independence from overwritten slots -/

theorem foldl_write_get_untouched {α β : Type} (f : β → Option (Nat × α)) (j : Nat) : ∀ (bs : List β) (l : List α),
    (∀ b ∈ bs, ∀ w, f b ≠ some (j, w)) → (bs.foldl (writeStep f) l)[j]? = l[j]? := by
  intro bs
  induction bs with
  | nil => intro l _; rfl
  | cons b bs ih =>
    intro l h
    rw [List.foldl_cons, ih _ (fun b' hb' => h b' (List.mem_cons_of_mem _ hb'))]
    unfold writeStep
    split
    · rename_i k w hf
      rw [List.getElem?_set]
      split
      · rename_i hk
        subst hk
        exact absurd hf (h b (by simp) w)
      · rfl
    · rfl

/-- two start lists that agree on every slot the fold does not write give the same result -/
theorem foldl_write_congr {α β : Type} (f : β → Option (Nat × α)) : ∀ (bs : List β) (l l' : List α),
    l.length = l'.length → (∀ j, (∀ b ∈ bs, ∀ w, f b ≠ some (j, w)) → l[j]? = l'[j]?) →
    bs.foldl (writeStep f) l = bs.foldl (writeStep f) l' := by
  intro bs
  induction bs with
  | nil =>
    intro l l' _ h
    exact List.ext_getElem? (fun j => h j (fun b hb => absurd hb (by simp)))
  | cons b bs ih =>
    intro l l' hlen h
    rw [List.foldl_cons, List.foldl_cons]
    apply ih
    · rw [writeStep_length, writeStep_length, hlen]
    · intro j hj
      unfold writeStep
      split
      · rename_i k w hf
        rw [List.getElem?_set, List.getElem?_set, hlen]
        split
        · rfl
        · rename_i hk
          apply h j
          intro b' hb' w' hf'
          rcases List.mem_cons.mp hb' with rfl | hb''
          · rw [hf] at hf'
            simp only [Option.some.injEq, Prod.mk.injEq] at hf'
            exact hk hf'.1
          · exact hj b' hb'' w' hf'
      · rename_i hf
        apply h j
        intro b' hb' w' hf'
        rcases List.mem_cons.mp hb' with rfl | hb''
        · rw [hf] at hf'; exact absurd hf' (by simp)
        · exact hj b' hb'' w' hf'

/-- which slots `format()` writes depends on the pattern only, not on the statement -/
theorem fillWrite_same_slots (c : Compiled) (v1 v2 : Attr → Str) (b : Attr) (j : Nat) :
    (∀ w, fillWrite c v2 b ≠ some (j, w)) → ∀ w, fillWrite c v1 b ≠ some (j, w) := by
  intro h w hw
  unfold fillWrite at h hw
  split at hw
  · rename_i hc
    simp only [Option.some.injEq, Prod.mk.injEq] at hw
    apply h (some (v2 b))
    simp only [hc, if_true, hw.1]
  · exact absurd hw (by simp)

/-- **No carry-over between statements**: what an earlier call left in `_args` is overwritten or was never written:
    filling on top of an earlier fill equals filling on top of the constructor's `_args`. -/
theorem fill_persist (c : Compiled) (v1 v2 : Attr → Str) (l : List (Option Str)) :
    formatOrder.foldl (writeStep (fillWrite c v2)) (formatOrder.foldl (writeStep (fillWrite c v1)) l) =
      formatOrder.foldl (writeStep (fillWrite c v2)) l := by
  apply foldl_write_congr
  · rw [foldl_write_length]
  · intro j hj
    exact foldl_write_get_untouched _ j _ _ (fun b hb => fillWrite_same_slots c v1 v2 b j (hj b hb))

/-! ### the instance -/

/-- one `format()` call as the backend issues it -/
structure Call where
  ts : Nat                -- the statement's timestamp (ns since the epoch)
  vals : Attr → Str       -- the values of every other attribute (the `time` entry is not looked at)

/-- the valuation of a call: `%(time)` is `tf ts`, `tf` = `TimestampFormatter::format_timestamp` (C13's subject) -/
def Call.valuation (tf : Nat → Str) (k : Call) : Attr → Str := fun a => if a = .time then tf k.ts else k.vals a

/-- a formatter between two calls: `_args` persists; `lastTs` is the `_last_timestamp` of the memoised variant
    (the pinned code has no such member: with `memo = false` it is carried along unused) -/
structure Inst where
  c : Compiled
  args : List (Option Str)
  lastTs : Nat
  deriving Repr

/-- after the constructor: `_args` hold the attribute names, `_last_timestamp{0}` -/
def Inst.new (c : Compiled) : Inst := { c := c, args := c.args, lastTs := 0 }

/-- the `_set_arg_val` statements of one call. `memo = true`: the `Time` statement is additionally guarded by
    `timestamp != _last_timestamp`. -/
def Inst.fill (memo : Bool) (tf : Nat → Str) (i : Inst) (k : Call) : List (Option Str) :=
  formatOrder.foldl (fun args a =>
    if (i.c.isSet.getD a.idx false || a == .message) && !(memo && a == .time && k.ts == i.lastTs) then
      args.set (i.c.order.getD a.idx (nrItems - 1)) (some (k.valuation tf a))
    else args) i.args

/-- `format()` as a step of the instance -/
def Inst.step (memo : Bool) (tf : Nat → Str) (i : Inst) (k : Call) : Inst × Except FErr Str :=
  if i.c.empty then (i, .ok [])
  else
    let args' := i.fill memo tf k
    let last' := if memo && i.c.isSet.getD Attr.time.idx false && k.ts != i.lastTs then k.ts else i.lastTs
    ({ i with args := args', lastTs := last' }, vformat i.c.fmt args')

/-- the outcomes of a sequence of calls through one instance -/
def Inst.run (memo : Bool) (tf : Nat → Str) : Inst → List Call → List (Except FErr Str)
  | _, [] => []
  | i, k :: ks => (i.step memo tf k).2 :: Inst.run memo tf (i.step memo tf k).1 ks

def resultOf : Except FErr Str → Result
  | .ok s => .line s
  | .error .format => .formatError
  | .error .unsupported => .unsupported

/-- construct a formatter for `pattern`, send `calls` through it: the outcome of every call -/
def formatCalls (memo : Bool) (pattern : Str) (tf : Nat → Str) (calls : List Call) : List Result :=
  match construct pattern with
  | .error e => calls.map fun _ => .ctorError e
  | .ok c => (Inst.run memo tf (Inst.new c) calls).map resultOf

/-- … and the outcome of the last one (what the harness observes): `pre` are the earlier calls -/
def formatLast (pattern : Str) (tf : Nat → Str) (pre : List Call) (k : Call) : Result :=
  ((formatCalls false pattern tf (pre ++ [k])).getLast?).getD .unsupported

/-! ### the pinned code: a call's outcome is a function of that call alone -/

theorem fill_false_eq (tf : Nat → Str) (i : Inst) (k : Call) :
    i.fill false tf k = formatOrder.foldl (writeStep (fillWrite i.c (k.valuation tf))) i.args := by
  unfold Inst.fill
  congr 1
  funext args b
  unfold writeStep fillWrite
  simp only [Bool.false_and, Bool.not_false, Bool.and_true]
  split <;> rfl

/-- the state after any number of calls: the constructor's `_args`, or one fill on top of them -/
def Inst.Reach (c : Compiled) (i : Inst) : Prop :=
  i.c = c ∧ (i.args = c.args ∨ ∃ v, i.args = formatOrder.foldl (writeStep (fillWrite c v)) c.args)

theorem step_false (tf : Nat → Str) (c : Compiled) (i : Inst) (k : Call) (h : i.Reach c) :
    (i.step false tf k).2 = format c (k.valuation tf) ∧ (i.step false tf k).1.Reach c := by
  obtain ⟨hc, hargs⟩ := h
  subst hc
  unfold Inst.step format
  by_cases he : i.c.empty = true
  · rw [if_pos he, if_pos he]
    exact ⟨rfl, rfl, hargs⟩
  · simp only [he, Bool.false_eq_true, if_false]
    have hfill : i.fill false tf k = fillArgs i.c (k.valuation tf) := by
      rw [fill_false_eq, fillArgs_eq]
      rcases hargs with h0 | ⟨v, hv⟩
      · rw [h0]
      · rw [hv, fill_persist]
    refine ⟨by rw [hfill], rfl, Or.inr ⟨k.valuation tf, ?_⟩⟩
    simp only [hfill, fillArgs_eq]

/-- **Every call of a formatter instance, whatever the earlier calls, gives what a fresh formatter gives for that call
    alone** (pinned code, every pattern the constructor accepts). -/
theorem run_false (tf : Nat → Str) (c : Compiled) : ∀ (calls : List Call) (i : Inst), i.Reach c →
    Inst.run false tf i calls = calls.map fun k => format c (k.valuation tf) := by
  intro calls
  induction calls with
  | nil => intro i _; rfl
  | cons k ks ih =>
    intro i h
    have hs := step_false tf c i k h
    simp only [Inst.run, List.map_cons, hs.1, ih _ hs.2]

theorem formatCalls_eq (pattern : Str) (tf : Nat → Str) (calls : List Call) :
    formatCalls false pattern tf calls = calls.map fun k => formatPattern pattern (k.valuation tf) := by
  unfold formatCalls formatPattern
  cases hc : construct pattern with
  | error e => rfl
  | ok c =>
    simp only [run_false tf c calls (Inst.new c) ⟨rfl, Or.inl rfl⟩, List.map_map]
    apply List.map_congr_left
    intro k _
    simp only [Function.comp, resultOf]
    cases format c (k.valuation tf) with
    | ok s => rfl
    | error e => cases e <;> rfl

theorem formatLast_eq (pattern : Str) (tf : Nat → Str) (pre : List Call) (k : Call) :
    formatLast pattern tf pre k = formatPattern pattern (k.valuation tf) := by
  unfold formatLast
  rw [formatCalls_eq, List.map_append]
  simp

end Pattern
