import QuillModel.Pattern.Scan
/-! The fuel of `generate` is never exhausted: every iteration removes one `)` from the pattern. So the model's
constructor fails only in the ways the C++ does (`unterminated`, `unknownAttr`) or reports the undefined-behaviour case. -/
namespace Pattern

theorem findField_some : ∀ {s pre rest : Str}, findField s = some (pre, rest) → s = pre ++ '%' :: '(' :: rest := by
  intro s
  induction s with
  | nil => intro pre rest h; simp [findField] at h
  | cons c s ih =>
    intro pre rest h
    simp only [findField] at h
    by_cases hc : c = '%' ∧ s.head? = some '('
    · simp only [hc, and_self, if_true, Option.some.injEq, Prod.mk.injEq] at h
      obtain ⟨rfl, rfl⟩ := h
      cases s with
      | nil => simp at hc
      | cons d s => simp at hc; simp [hc.1, hc.2]
    · simp only [hc, if_false, Option.map_eq_some_iff] at h
      obtain ⟨⟨p', r'⟩, h1, h2⟩ := h
      simp only [Prod.mk.injEq] at h2
      obtain ⟨rfl, rfl⟩ := h2
      simp [ih h1]

def closeCount (s : Str) : Nat := s.count ')'

theorem closeCount_append (a b : Str) : closeCount (a ++ b) = closeCount a + closeCount b := by
  simp [closeCount, List.count_append]

theorem closeCount_of_not_mem {s : Str} (h : ')' ∉ s) : closeCount s = 0 := by
  simp [closeCount, List.count_eq_zero, h]

theorem closeCount_le_length (s : Str) : closeCount s ≤ s.length := List.count_le_length

theorem fieldParts_value_closeCount (body : Str) (h : ')' ∉ body) : closeCount (fieldParts body).2 = 0 := by
  unfold fieldParts
  cases hs : splitAtChar ':' body with
  | none => simp [closeCount]
  | some pr =>
    obtain ⟨n, spec⟩ := pr
    obtain ⟨e, _⟩ := splitAtChar_some hs
    have hspec : ')' ∉ spec := by
      intro hm; apply h; rw [e]; simp [hm]
    apply closeCount_of_not_mem
    simp only [List.mem_cons, List.mem_append, not_or]
    exact ⟨by decide, by decide, hspec, by decide⟩

theorem generate_never_fuel : ∀ (fuel : Nat) (pat : Str) (o : List Nat) (s : List Bool) (k nf : Nat),
    closeCount pat < fuel → generate fuel pat o s k nf ≠ .error .fuel := by
  intro fuel
  induction fuel with
  | zero => intro pat o s k nf h; omega
  | succ fuel ih =>
    intro pat o s k nf h
    simp only [generate]
    cases hf : findField pat with
    | none => simp
    | some pr =>
      obtain ⟨pre, rest⟩ := pr
      simp only
      cases hs : splitAtChar ')' rest with
      | none => simp
      | some pr2 =>
        obtain ⟨body, post⟩ := pr2
        simp only
        cases ha : attrOfName (fieldParts body).1 with
        | none => simp
        | some a =>
          simp only
          apply ih
          have e1 := findField_some hf
          obtain ⟨e2, hb⟩ := splitAtChar_some hs
          have hv := fieldParts_value_closeCount body hb
          rw [e1, e2] at h
          have hc : closeCount (pre ++ '%' :: '(' :: (body ++ ')' :: post)) =
              closeCount pre + (closeCount body + (1 + closeCount post)) := by
            rw [closeCount_append]
            show closeCount pre + closeCount (['%', '('] ++ (body ++ ([')'] ++ post))) = _
            rw [closeCount_append, closeCount_append, closeCount_append]
            simp [closeCount]
          rw [hc, closeCount_of_not_mem hb] at h
          rw [closeCount_append, closeCount_append, hv]
          omega

/-- the constructor model fails only as the C++ constructor does: unterminated `%(`, unknown attribute name —
    or it reports the undefined-behaviour case of more than sixteen fields -/
theorem construct_error_kinds (pattern : Str) (e : CtorErr) (h : construct pattern = .error e) :
    e = .unterminated ∨ (∃ n, e = .unknownAttr n) ∨ e = .tooManyFields := by
  unfold construct at h
  have hfuel : closeCount (pattern ++ ['\n']) < pattern.length + 1 := by
    rw [closeCount_append]
    have := closeCount_le_length pattern
    have : closeCount ['\n'] = 0 := by decide
    omega
  have hnf := generate_never_fuel (pattern.length + 1) (pattern ++ ['\n']) (List.replicate nrItems (nrItems - 1))
    (List.replicate nrItems false) 0 0 hfuel
  cases hg : generate (pattern.length + 1) (pattern ++ ['\n']) (List.replicate nrItems (nrItems - 1))
      (List.replicate nrItems false) 0 0 with
  | error e' =>
    rw [hg] at h hnf
    simp only [Except.error.injEq] at h
    subst h
    cases e' with
    | unterminated => left; rfl
    | unknownAttr n => right; left; exact ⟨n, rfl⟩
    | tooManyFields => right; right; rfl
    | fuel => exact absurd rfl hnf
  | ok g =>
    rw [hg] at h
    simp only at h
    split at h
    · simp only [Except.error.injEq] at h; right; right; exact h.symm
    · simp at h

end Pattern
