import QuillModel.Pattern.Compile
/-! "The same attribute cannot be used twice": what the code does when it is. The constructor accepts the pattern;
the slot of the earlier occurrence stays an empty `basic_format_arg`, so every statement throws at format time. -/
namespace Pattern

theorem foldl_write_untouched {α β : Type} (f : β → Option (Nat × α)) (j : Nat) : ∀ (bs : List β) (l : List α),
    (∀ b ∈ bs, ∀ k w, f b = some (k, w) → k ≠ j) → (bs.foldl (writeStep f) l)[j]? = l[j]? := by
  intro bs
  induction bs with
  | nil => intro l _; rfl
  | cons b bs ih =>
    intro l h
    simp only [List.foldl_cons]
    rw [ih _ (fun b' hb' => h b' (List.mem_cons_of_mem _ hb'))]
    unfold writeStep
    split
    · rename_i k w hf
      exact List.getElem?_set_ne (h b (by simp) k w hf)
    · rfl

theorem assign_append : ∀ (a b : List Attr) (k : Nat) (o : List Nat),
    assign (a ++ b) k o = assign b (k + a.length) (assign a k o) := by
  intro a
  induction a with
  | nil => intro b k o; simp [assign]
  | cons x a ih =>
    intro b k o
    simp only [List.cons_append, assign, ih, List.length_cons]
    congr 1; omega

theorem exists_last_occurrence {b : Attr} : ∀ {l : List Attr}, b ∈ l → ∃ pre post, l = pre ++ b :: post ∧ b ∉ post := by
  intro l
  induction l with
  | nil => intro h; simp at h
  | cons x l ih =>
    intro h
    by_cases hin : b ∈ l
    · obtain ⟨pre, post, e, hn⟩ := ih hin
      exact ⟨x :: pre, post, by simp [e], hn⟩
    · have : b = x := by
        rcases List.mem_cons.mp h with h | h
        · exact h
        · exact absurd h hin
      subst this
      exact ⟨[], l, rfl, hin⟩

/-- the slot of an attribute is the position of its LAST occurrence -/
theorem order_get_last (pre post : List Attr) (b : Attr) (hb : b ∉ post) :
    (assign (pre ++ b :: post) 0 order0).getD b.idx (nrItems - 1) = pre.length := by
  rw [assign_append]
  simp only [assign, Nat.zero_add]
  have h1 := assign_get_not_mem post (pre.length + 1) ((assign pre 0 order0).set b.idx pre.length) b hb
  have hlen : (assign pre 0 order0).length = 16 := by rw [assign_length]; rfl
  have hlt := idx_lt b
  rw [List.getD_eq_getElem?_getD, h1]
  simp [hlen, hlt]

theorem setArgs_eq (order : List Nat) :
    setArgs order = Attr.all.foldl (writeStep (fun a => some (order.getD a.idx (nrItems - 1), some a.name)))
      (List.replicate nrItems none) := by
  unfold setArgs
  congr 1

/-- if the attribute at position `i` occurs again later, no write ever targets slot `i` -/
theorem slot_ne_of_later_duplicate (as : List Attr) (hlen : as.length ≤ 16) (i j : Nat) (a : Attr) (hij : i < j)
    (hi : as[i]? = some a) (hj : as[j]? = some a) (b : Attr) :
    (assign as 0 order0).getD b.idx (nrItems - 1) ≠ i := by
  have hjlt : j < as.length := by
    rcases Nat.lt_or_ge j as.length with h | h
    · exact h
    · rw [List.getElem?_eq_none h] at hj; simp at hj
  by_cases hb : b ∈ as
  · obtain ⟨pre, post, e, hn⟩ := exists_last_occurrence hb
    rw [e, order_get_last pre post b hn]
    intro hpre
    subst hpre
    have hb_eq : b = a := by
      rw [e] at hi
      simp at hi
      exact hi
    subst hb_eq
    apply hn
    rw [e] at hj
    obtain ⟨m, rfl⟩ : ∃ m, j = pre.length + 1 + m := ⟨j - pre.length - 1, by omega⟩
    have : (pre ++ b :: post)[pre.length + 1 + m]? = post[m]? := by
      rw [List.getElem?_append_right (by omega), show pre.length + 1 + m - pre.length = m + 1 by omega,
        List.getElem?_cons_succ]
    rw [this] at hj
    exact List.mem_of_getElem? hj
  · rw [order_get_not_mem as b hb]; omega

theorem getArg_none_of_later_duplicate (p : List Item) (vals : Attr → Str) (hlen : (attrsOf p).length ≤ 16)
    (i j : Nat) (a : Attr) (hij : i < j) (hi : (attrsOf p)[i]? = some a) (hj : (attrsOf p)[j]? = some a) :
    getArg (fillArgs (compiledOf p) vals) i = none := by
  have hne := slot_ne_of_later_duplicate (attrsOf p) hlen i j a hij hi hj
  have hjlt : j < (attrsOf p).length := by
    rcases Nat.lt_or_ge j (attrsOf p).length with h | h
    · exact h
    · rw [List.getElem?_eq_none h] at hj; simp at hj
  rw [fillArgs_eq]
  unfold getArg
  rw [foldl_write_untouched]
  · simp only [compiledOf, setArgs_eq]
    rw [foldl_write_untouched]
    · have hi16 : i < 16 := by omega
      have : (List.replicate nrItems (none : Option Str))[i]? = some none := by
        rw [List.getElem?_replicate]; simp [nrItems, hi16]
      rw [this]; rfl
    · intro b _ k w hw
      simp only [Option.some.injEq, Prod.mk.injEq] at hw
      rw [← hw.1]; exact hne b
  · intro b _ k w hw
    unfold fillWrite at hw
    split at hw
    · simp only [Option.some.injEq, Prod.mk.injEq] at hw
      rw [← hw.1]; exact hne b
    · simp at hw

/-! ### fmt fails at the empty slot -/

theorem emap_error (f : Str → Str) (e : FErr) : (Except.error e : Except FErr Str).map f = .error e := rfl

theorem vfmt_plain_field_none (args : List (Option Str)) (t : Str) (n : Nat) (hv : getArg args n = none) :
    vfmt args ('{' :: '}' :: t) (.auto n) .text = .error .format := by
  simp [vfmt, interpField, hv]

theorem vfmt_spec_field_none (args : List (Option Str)) (t : Str) (n : Nat) (sp : Spec)
    (hsp : sp.valid = true) (hv : getArg args n = none) :
    vfmt args ('{' :: ':' :: (sp.print ++ '}' :: t)) (.auto n) .text = .error .format := by
  have h1 : vfmt args ('{' :: ':' :: (sp.print ++ '}' :: t)) (.auto n) .text =
      vfmt args (sp.print ++ '}' :: t) (.auto n) (.field [':']) := by
    simp [vfmt]
  rw [h1, vfmt_field_acc args _ _ _ _ (spec_print_not_mem sp hsp).2]
  simp [interpField, hv]

theorem vfmt_items_missing (args : List (Option Str)) : ∀ (p : List Item) (n : Nat) (t : Str),
    (∀ it ∈ p, it.wf = true) → NoBrace p →
    (∃ i, i < (attrsOf p).length ∧ getArg args (n + i) = none) →
    vfmt args (fmtOf p ++ t) (.auto n) .text = .error .format := by
  intro p
  induction p with
  | nil => intro n t _ _ ⟨i, hi, _⟩; simp [attrsOf] at hi
  | cons it p ih =>
    intro n t hwf hnb ⟨i, hi, hnone⟩
    have hwf' : ∀ it ∈ p, it.wf = true := fun x hx => hwf x (List.mem_cons_of_mem _ hx)
    have hnb' : NoBrace p := fun x hx => hnb x (List.mem_cons_of_mem _ hx)
    cases it with
    | lit s =>
      have hb := hnb (.lit s) (by simp)
      simp only [Item.noBrace, Bool.and_eq_true, Bool.not_eq_true', List.contains_eq_mem, decide_eq_false_iff_not] at hb
      have := ih n t hwf' hnb' ⟨i, by simpa [attrsOf] using hi, hnone⟩
      simp only [fmtOf, List.flatMap_cons, Item.fmtText, List.append_assoc] at this ⊢
      rw [vfmt_lit args s _ _ hb.1 hb.2, this, emap_error]
    | field a spec =>
      simp only [fmtOf, List.flatMap_cons, List.append_assoc]
      cases hv0 : getArg args n with
      | none =>
        cases spec with
        | none => simp only [Item.fmtText, List.cons_append, List.nil_append]; exact vfmt_plain_field_none args _ n hv0
        | some sp =>
          have hsp : sp.valid = true := hwf (.field a (some sp)) (by simp)
          rw [fmtText_spec]; exact vfmt_spec_field_none args _ n sp hsp hv0
      | some v =>
        have hi0 : i ≠ 0 := by
          intro e; subst e; simp [hv0] at hnone
        obtain ⟨i', rfl⟩ : ∃ i', i = i' + 1 := ⟨i - 1, by omega⟩
        have := ih (n + 1) t hwf' hnb' ⟨i', by simpa [attrsOf] using hi, by
          rw [show n + 1 + i' = n + (i' + 1) by omega]; exact hnone⟩
        simp only [fmtOf] at this
        cases spec with
        | none =>
          simp only [Item.fmtText, List.cons_append, List.nil_append]
          rw [vfmt_plain_field args _ n v hv0, this, emap_error]
        | some sp =>
          have hsp : sp.valid = true := hwf (.field a (some sp)) (by simp)
          rw [fmtText_spec, vfmt_spec_field args _ n v sp hsp hv0, this, emap_error]

theorem exists_duplicate_of_not_nodup {l : List Attr} (h : ¬ l.Nodup) :
    ∃ (i j : Nat) (a : Attr), i < j ∧ l[i]? = some a ∧ l[j]? = some a := by
  induction l with
  | nil => exact absurd List.nodup_nil h
  | cons x l ih =>
    rw [List.nodup_cons] at h
    by_cases hx : x ∈ l
    · obtain ⟨j, hj⟩ := List.mem_iff_getElem?.mp hx
      exact ⟨0, j + 1, x, Nat.succ_pos j, by simp, by simpa using hj⟩
    · have hl : ¬ l.Nodup := fun hn => h ⟨hx, hn⟩
      obtain ⟨i, j, a, hij, hi, hj⟩ := ih hl
      exact ⟨i + 1, j + 1, a, Nat.succ_lt_succ hij, by simpa using hi, by simpa using hj⟩

/-- **duplicate attribute**: accepted by the constructor, and then every statement throws -/
theorem duplicate_attribute_always_throws (p : List Item) (vals : Attr → Str) (hwf : ∀ it ∈ p, it.wf = true)
    (hadj : noAdjLits p = true) (hnb : NoBrace p) (hlen : (attrsOf p).length ≤ 16) (hdup : ¬ (attrsOf p).Nodup) :
    formatPattern (printPattern p) vals = .formatError := by
  obtain ⟨i, j, a, hij, hi, hj⟩ := exists_duplicate_of_not_nodup hdup
  have hjlt : j < (attrsOf p).length := by
    rcases Nat.lt_or_ge j (attrsOf p).length with h | h
    · exact h
    · rw [List.getElem?_eq_none h] at hj; simp at hj
  have hne : printPattern p ≠ [] := by
    intro e
    have := attrs_length_le_print p
    rw [e] at this
    simp only [List.length_nil, Nat.le_zero_eq] at this
    omega
  unfold formatPattern
  rw [construct_items' p hwf hadj hlen]
  have hempty : (compiledOf p).empty = false := by
    simp only [compiledOf]
    cases h : printPattern p with
    | nil => exact absurd h hne
    | cons _ _ => rfl
  have hv := vfmt_items_missing (fillArgs (compiledOf p) vals) p 0 ['\n'] hwf hnb
    ⟨i, by omega, by rw [Nat.zero_add]; exact getArg_none_of_later_duplicate p vals hlen i j a hij hi hj⟩
  simp only [format, hempty, vformat]
  rw [show (compiledOf p).fmt = fmtOf p ++ ['\n'] from rfl, hv]
  simp

end Pattern
