import QuillModel.Pattern.Slots
/-! What the constructor computes for a well-formed item list, and what `format()` then puts into the slots. -/
namespace Pattern

def order0 : List Nat := List.replicate nrItems (nrItems - 1)
def isSet0 : List Bool := List.replicate nrItems false

/-- the formatter state for a well-formed item list -/
def compiledOf (p : List Item) : Compiled :=
  { empty := (printPattern p).isEmpty
    fmt := fmtOf p ++ ['\n']
    order := assign (attrsOf p) 0 order0
    isSet := mark (attrsOf p) isSet0
    args := setArgs (assign (attrsOf p) 0 order0) }

theorem generate_clean (fuel : Nat) (pat : Str) (o : List Nat) (s : List Bool) (k nf : Nat) (h : Clean pat) :
    generate fuel pat o s k nf = .ok ⟨pat, o, s, nf⟩ := by
  unfold Clean at h
  cases fuel <;> simp [generate, h]

theorem mem_all (a : Attr) : a ∈ Attr.all := by cases a <;> decide

theorem mem_formatOrder (a : Attr) : a ∈ formatOrder := by cases a <;> decide

theorem attrs_length_le (as : List Attr) (h : as.Nodup) : as.length ≤ 16 :=
  h.length_le_of_subset (l₂ := Attr.all) (fun a _ => mem_all a)

def allButMessage : List Attr :=
  [.time, .fileName, .callerFunction, .logLevel, .logLevelShortCode, .lineNumber, .logger, .fullPath,
   .threadId, .threadName, .processId, .sourceLocation, .shortSourceLocation, .tags, .namedArgs]

theorem attrs_length_le_of_no_message (as : List Attr) (h : as.Nodup) (hm : Attr.message ∉ as) : as.length ≤ 15 := by
  refine h.length_le_of_subset (l₂ := allButMessage) ?_
  intro a ha
  have hne : a ≠ .message := fun e => hm (e ▸ ha)
  cases a <;> first | (exact absurd rfl hne) | decide

theorem attrs_length_le_print : ∀ (p : List Item), (attrsOf p).length ≤ (printPattern p).length := by
  intro p
  induction p with
  | nil => simp [attrsOf]
  | cons it p ih =>
    cases it with
    | lit s => simp only [attrsOf, printPattern, List.flatMap_cons, List.length_append] at ih ⊢; omega
    | field a spec =>
      simp only [attrsOf, printPattern, List.flatMap_cons, List.length_append, List.length_cons, print_field] at ih ⊢
      omega

/-- the constructor accepts every pattern made of well-formed items with at most sixteen fields (duplicates included) -/
theorem construct_items' (p : List Item) (hwf : ∀ it ∈ p, it.wf = true) (hadj : noAdjLits p = true)
    (hlen : (attrsOf p).length ≤ 16) : construct (printPattern p) = .ok (compiledOf p) := by
  have hg := generate_items p ((printPattern p).length + 1) [] ['\n'] order0 isSet0 0 0 hwf hadj clean_nil
    (Or.inl (by simp)) (by omega) (by have := attrs_length_le_print p; omega)
  simp only [List.nil_append, Nat.zero_add] at hg
  have hcl : Clean (fmtOf p ++ ['\n']) := clean_append hg.2 (show findField ['\n'] = none by decide) (Or.inr (by decide))
  unfold construct
  rw [show List.replicate nrItems (nrItems - 1) = order0 from rfl, show List.replicate nrItems false = isSet0 from rfl,
    hg.1, generate_clean _ _ _ _ _ _ hcl]
  have : ¬ (attrsOf p).length > nrItems := by simp [nrItems]; omega
  simp only [this, if_false, compiledOf]

theorem construct_items (p : List Item) (h : WF p) : construct (printPattern p) = .ok (compiledOf p) :=
  construct_items' p h.1 h.2.1 (attrs_length_le _ h.2.2)

theorem setArgs_length (order : List Nat) : (setArgs order).length = 16 := by
  unfold setArgs
  have : ∀ (as : List Attr) (l : List (Option Str)),
      (as.foldl (fun args a => args.set (order.getD a.idx (nrItems - 1)) (some a.name)) l).length = l.length := by
    intro as
    induction as with
    | nil => intro l; rfl
    | cons a as ih => intro l; simp only [List.foldl_cons, ih, List.length_set]
  rw [this]; simp [nrItems]

/-- the `_set_arg_val` writes as `writeStep`s -/
def fillWrite (c : Compiled) (vals : Attr → Str) (b : Attr) : Option (Nat × Option Str) :=
  if c.isSet.getD b.idx false || b == .message then some (c.order.getD b.idx (nrItems - 1), some (vals b)) else none

theorem fillArgs_eq (c : Compiled) (vals : Attr → Str) :
    fillArgs c vals = formatOrder.foldl (writeStep (fillWrite c vals)) c.args := by
  unfold fillArgs
  congr 1
  funext args b
  unfold writeStep fillWrite
  split <;> rfl

theorem order_get_mem (as : List Attr) (hnd : as.Nodup) (j : Nat) (a : Attr) (hj : as[j]? = some a) :
    (assign as 0 order0).getD a.idx (nrItems - 1) = j := by
  have := assign_get_mem as 0 order0 j a hnd (by simp [order0, nrItems]) hj
  simp [List.getD_eq_getElem?_getD, this]

theorem order_get_not_mem (as : List Attr) (b : Attr) (hb : b ∉ as) :
    (assign as 0 order0).getD b.idx (nrItems - 1) = 15 := by
  have := assign_get_not_mem as 0 order0 b hb
  have h0 : order0[b.idx]? = some 15 := by cases b <;> rfl
  rw [List.getD_eq_getElem?_getD, this, h0]; rfl

theorem isSet_get_mem (as : List Attr) (b : Attr) (hb : b ∈ as) : (mark as isSet0).getD b.idx false = true := by
  have := mark_get_mem as isSet0 b (by simp [isSet0, nrItems]) hb
  simp [List.getD_eq_getElem?_getD, this]

theorem isSet_get_not_mem (as : List Attr) (b : Attr) (hb : b ∉ as) : (mark as isSet0).getD b.idx false = false := by
  have := mark_get_not_mem as isSet0 b hb
  have h0 : isSet0[b.idx]? = some false := by cases b <;> rfl
  rw [List.getD_eq_getElem?_getD, this, h0]; rfl

/-- after `format()` has filled the slots, slot `j` holds the value of the `j`-th field's attribute -/
theorem fillArgs_get (p : List Item) (vals : Attr → Str) (hnd : (attrsOf p).Nodup) (j : Nat) (a : Attr)
    (hj : (attrsOf p)[j]? = some a) : getArg (fillArgs (compiledOf p) vals) j = some (vals a) := by
  have hjlt : j < (attrsOf p).length := by
    rcases Nat.lt_or_ge j (attrsOf p).length with h | h
    · exact h
    · rw [List.getElem?_eq_none h] at hj; simp at hj
  have ha_mem : a ∈ attrsOf p := List.mem_of_getElem? hj
  rw [fillArgs_eq]
  have key := foldl_write_get (fillWrite (compiledOf p) vals) j (some (vals a)) formatOrder (compiledOf p).args ?hall
  case hall =>
    intro b _ w hw
    unfold fillWrite at hw
    split at hw
    · rename_i hcond
      simp only [Option.some.injEq, Prod.mk.injEq] at hw
      obtain ⟨hslot, rfl⟩ := hw
      by_cases hb : b ∈ attrsOf p
      · obtain ⟨j', hj'⟩ := List.mem_iff_getElem?.mp hb
        have := order_get_mem _ hnd j' b hj'
        simp only [compiledOf] at hslot
        rw [this] at hslot
        subst hslot
        rw [hj] at hj'
        simp only [Option.some.injEq] at hj'
        rw [hj']
      · exfalso
        simp only [compiledOf] at hslot hcond
        rw [order_get_not_mem _ b hb] at hslot
        rw [isSet_get_not_mem _ b hb] at hcond
        simp only [Bool.false_or, beq_iff_eq] at hcond
        subst hcond
        have := attrs_length_le_of_no_message _ hnd hb
        omega
    · simp at hw
  have hres := key.2 (by simp only [compiledOf, setArgs_length]; have := attrs_length_le _ hnd; omega)
    ⟨a, mem_formatOrder a, some (vals a), by
      unfold fillWrite
      simp only [compiledOf, isSet_get_mem _ a ha_mem, Bool.true_or, if_true, order_get_mem _ hnd j a hj]⟩
  simp [getArg, hres]

end Pattern
