import QuillModel.Pattern.Stage2
/-! Slot bookkeeping: `_order_index`, `_is_set_in_pattern`, and the `_set_arg_val` writes of `format()`. -/
namespace Pattern

/-! ### a fold of `List.set` writes -/

def writeStep {α β : Type} (f : β → Option (Nat × α)) (l : List α) (b : β) : List α :=
  match f b with
  | some (k, v) => l.set k v
  | none => l

theorem writeStep_length {α β : Type} (f : β → Option (Nat × α)) (l : List α) (b : β) :
    (writeStep f l b).length = l.length := by
  unfold writeStep; split <;> simp

theorem foldl_write_length {α β : Type} (f : β → Option (Nat × α)) : ∀ (bs : List β) (l : List α),
    (bs.foldl (writeStep f) l).length = l.length := by
  intro bs
  induction bs with
  | nil => intro l; rfl
  | cons b bs ih => intro l; simp only [List.foldl_cons, ih, writeStep_length]

theorem foldl_write_get {α β : Type} (f : β → Option (Nat × α)) (j : Nat) (v : α) : ∀ (bs : List β) (l : List α),
    (∀ b ∈ bs, ∀ w, f b = some (j, w) → w = v) →
    (l[j]? = some v → (bs.foldl (writeStep f) l)[j]? = some v) ∧
    (j < l.length → (∃ b ∈ bs, ∃ w, f b = some (j, w)) → (bs.foldl (writeStep f) l)[j]? = some v) := by
  intro bs
  induction bs with
  | nil =>
    intro l _
    exact ⟨fun h => h, fun _ ⟨b, hb, _⟩ => absurd hb (by simp)⟩
  | cons b bs ih =>
    intro l hall
    have hall' : ∀ b' ∈ bs, ∀ w, f b' = some (j, w) → w = v := fun b' hb' => hall b' (List.mem_cons_of_mem _ hb')
    have keep : l[j]? = some v → (writeStep f l b)[j]? = some v := by
      intro hl
      unfold writeStep
      split
      · rename_i k w hf
        rw [List.getElem?_set]
        split
        · rename_i hk
          subst hk
          have hw := hall b (by simp) w hf
          have hlt : k < l.length := by
            rcases Nat.lt_or_ge k l.length with h | h
            · exact h
            · rw [List.getElem?_eq_none h] at hl; simp at hl
          simp [hlt, hw]
        · exact hl
      · exact hl
    constructor
    · intro hl
      simp only [List.foldl_cons]
      exact (ih _ hall').1 (keep hl)
    · intro hlt ⟨b', hb', w, hf⟩
      simp only [List.foldl_cons]
      rcases List.mem_cons.mp hb' with rfl | hb'
      · apply (ih _ hall').1
        have hw := hall b' (by simp) w hf
        unfold writeStep
        rw [hf]
        simp [hlt, hw]
      · exact (ih _ hall').2 (by rw [writeStep_length]; exact hlt) ⟨b', hb', w, hf⟩

/-! ### `assign` and `mark` -/

theorem assign_length : ∀ (as : List Attr) (k : Nat) (o : List Nat), (assign as k o).length = o.length := by
  intro as
  induction as with
  | nil => intros; rfl
  | cons a as ih => intro k o; simp [assign, ih]

theorem mark_length : ∀ (as : List Attr) (s : List Bool), (mark as s).length = s.length := by
  intro as
  induction as with
  | nil => intros; rfl
  | cons a as ih => intro s; simp [mark, ih]

theorem assign_get_not_mem : ∀ (as : List Attr) (k : Nat) (o : List Nat) (b : Attr), b ∉ as →
    (assign as k o)[b.idx]? = o[b.idx]? := by
  intro as
  induction as with
  | nil => intros; rfl
  | cons a as ih =>
    intro k o b hb
    simp only [List.mem_cons, not_or] at hb
    have hne : a.idx ≠ b.idx := fun e => hb.1 (idx_inj e).symm
    simp only [assign, ih _ _ b hb.2, List.getElem?_set_ne hne]

theorem assign_get_mem : ∀ (as : List Attr) (k : Nat) (o : List Nat) (j : Nat) (a : Attr), as.Nodup → o.length = 16 →
    as[j]? = some a → (assign as k o)[a.idx]? = some (k + j) := by
  intro as
  induction as with
  | nil => intro k o j a _ _ h; simp at h
  | cons a' as ih =>
    intro k o j a hnd hlen hj
    rw [List.nodup_cons] at hnd
    cases j with
    | zero =>
      simp only [List.getElem?_cons_zero, Option.some.injEq] at hj
      subst hj
      simp only [assign, assign_get_not_mem _ _ _ _ hnd.1]
      have := idx_lt a'
      simp [hlen, this]
    | succ j =>
      simp only [List.getElem?_cons_succ] at hj
      simp only [assign]
      rw [ih (k + 1) _ j a hnd.2 (by simp [hlen]) hj]
      congr 1; omega

theorem mark_get_not_mem : ∀ (as : List Attr) (s : List Bool) (b : Attr), b ∉ as →
    (mark as s)[b.idx]? = s[b.idx]? := by
  intro as
  induction as with
  | nil => intros; rfl
  | cons a as ih =>
    intro s b hb
    simp only [List.mem_cons, not_or] at hb
    have hne : a.idx ≠ b.idx := fun e => hb.1 (idx_inj e).symm
    simp only [mark, ih _ b hb.2, List.getElem?_set_ne hne]

theorem mark_get_mem : ∀ (as : List Attr) (s : List Bool) (b : Attr), s.length = 16 → b ∈ as →
    (mark as s)[b.idx]? = some true := by
  intro as
  induction as with
  | nil => intro s b _ h; simp at h
  | cons a as ih =>
    intro s b hlen hb
    simp only [mark]
    by_cases hin : b ∈ as
    · exact ih _ b (by simp [hlen]) hin
    · have : b = a := by
        rcases List.mem_cons.mp hb with h | h
        · exact h
        · exact absurd h hin
      subst this
      rw [mark_get_not_mem _ _ _ hin]
      have := idx_lt b
      simp [hlen, this]

end Pattern
