import QuillModel.Pattern.Scan
/-! Stage 1 on item lists: `generate` rewrites `printPattern p` into `fmtOf p` and assigns slots in order. -/
namespace Pattern

def Item.fmtText : Item → Str
  | .lit s => s
  | .field _ none => ['{', '}']
  | .field _ (some sp) => '{' :: ':' :: (sp.print ++ ['}'])

/-- the fmt format string the constructor produces (without the final newline) -/
def fmtOf (p : List Item) : Str := p.flatMap Item.fmtText

def fieldBody (a : Attr) : Option Spec → Str
  | none => a.name
  | some sp => a.name ++ ':' :: sp.print

/-- `order_index[id] = arg_idx++` for the fields in order -/
def assign : List Attr → Nat → List Nat → List Nat
  | [], _, o => o
  | a :: as, k, o => assign as (k + 1) (o.set a.idx k)

def mark : List Attr → List Bool → List Bool
  | [], s => s
  | a :: as, s => mark as (s.set a.idx true)

theorem print_field (a : Attr) (spec : Option Spec) :
    (Item.field a spec).print = '%' :: '(' :: (fieldBody a spec ++ [')']) := by
  cases spec <;> simp [Item.print, fieldBody]

theorem spec_print_not_mem (sp : Spec) (hv : sp.valid = true) : ')' ∉ sp.print ∧ '}' ∉ sp.print := by
  have key : ∀ c ∈ sp.print, c ≠ ')' ∧ c ≠ '}' := by
    intro c hc
    rw [Spec.print_eq] at hc
    rcases List.mem_append.mp hc with h | h
    · simp only [Spec.faText] at h
      rcases List.mem_append.mp h with h | h
      · cases hf : sp.fill with
        | none => simp [hf] at h
        | some f =>
          simp only [hf, List.mem_singleton] at h
          subst h
          simp only [Spec.valid, hf, Bool.and_eq_true, bne_iff_ne, ne_eq, decide_eq_true_eq] at hv
          exact ⟨hv.1.1.1.2, hv.1.1.1.1.2⟩
      · cases ha : sp.align with
        | none => simp [ha] at h
        | some a =>
          simp only [ha, List.mem_singleton] at h
          subst h
          exact ⟨(align_char_facts a).2.1, (align_char_facts a).2.2.1⟩
    · have := numChar_facts c (rest_numChar _ _ c h)
      exact ⟨this.2.2.1, this.2.2.2.1⟩
  exact ⟨fun h => (key _ h).1 rfl, fun h => (key _ h).2 rfl⟩

theorem body_no_close (a : Attr) (spec : Option Spec) (hv : (Item.field a spec).wf = true) :
    ')' ∉ fieldBody a spec := by
  cases spec with
  | none => exact name_no_close a
  | some sp =>
    simp only [fieldBody, List.mem_append, List.mem_cons, not_or]
    exact ⟨name_no_close a, by decide, (spec_print_not_mem sp hv).1⟩

theorem fieldParts_body (a : Attr) (spec : Option Spec) :
    fieldParts (fieldBody a spec) = (a.name, (Item.field a spec).fmtText) := by
  cases spec with
  | none =>
    simp only [fieldParts, fieldBody, splitAtChar_none.mpr (name_no_colon a), Item.fmtText]
  | some sp =>
    simp only [fieldParts, fieldBody, splitAtChar_append _ _ (name_no_colon a), Item.fmtText]

/-- the replacement text contains no `%(` -/
theorem clean_fmtText_field (a : Attr) (spec : Option Spec) (hv : (Item.field a spec).wf = true) :
    Clean (Item.field a spec).fmtText := by
  cases spec with
  | none => show findField ['{', '}'] = none; decide
  | some sp =>
    simp only [Item.fmtText]
    apply clean_cons_of_ne (by decide)
    apply clean_cons_of_ne (by decide)
    have hv' : sp.valid = true := hv
    rw [Spec.print_eq]
    have hrest : ∀ c ∈ Spec.widthText sp.width ++ Spec.precText sp.prec, c ≠ '(' :=
      fun c hc => (numChar_facts c (rest_numChar _ _ c hc)).2.2.2.2.2.1
    have halign : ∀ c ∈ (match sp.align with | some a => [a.char] | none => []), c ≠ '(' := by
      intro c hc
      cases ha : sp.align with
      | none => simp [ha] at hc
      | some al => simp only [ha, List.mem_singleton] at hc; subst hc; exact (align_char_facts al).2.2.2.2.1
    have htail : '(' ∉ (match sp.align with | some a => [a.char] | none => []) ++
        (Spec.widthText sp.width ++ (Spec.precText sp.prec ++ ['}'])) := by
      intro h
      rcases List.mem_append.mp h with h | h
      · exact halign _ h rfl
      · rcases List.mem_append.mp h with h | h
        · exact hrest _ (List.mem_append_left _ h) rfl
        · rcases List.mem_append.mp h with h | h
          · exact hrest _ (List.mem_append_right _ h) rfl
          · simp at h
    simp only [Spec.faText]
    cases hf : sp.fill with
    | some f =>
      simp only [List.append_assoc, List.cons_append, List.nil_append]
      exact clean_cons_of_tail_no_paren htail
    | none =>
      simp only [List.append_assoc, List.nil_append]
      exact clean_of_no_paren htail

theorem fmtText_field_head (a : Attr) (spec : Option Spec) : (Item.field a spec).fmtText.head? = some '{' := by
  cases spec <;> rfl

theorem fmtText_field_last (a : Attr) (spec : Option Spec) : (Item.field a spec).fmtText.getLast? = some '}' := by
  cases spec with
  | none => rfl
  | some sp =>
    simp only [Item.fmtText]
    rw [show '{' :: ':' :: (sp.print ++ ['}']) = ('{' :: ':' :: sp.print) ++ ['}'] by simp, List.getLast?_append]
    simp

/-- one iteration of the `while` loop on the first field after a clean prefix -/
theorem generate_field (fuel : Nat) (done rest : Str) (a : Attr) (spec : Option Spec) (order : List Nat)
    (isSet : List Bool) (k nf : Nat) (hd : Clean done) (hv : (Item.field a spec).wf = true) :
    generate (fuel + 1) (done ++ ((Item.field a spec).print ++ rest)) order isSet k nf =
      generate fuel ((done ++ (Item.field a spec).fmtText) ++ rest) (order.set a.idx k) (isSet.set a.idx true)
        ((k + 1) % 256) (nf + 1) := by
  have h1 : done ++ ((Item.field a spec).print ++ rest) =
      done ++ '%' :: '(' :: (fieldBody a spec ++ ')' :: rest) := by
    rw [print_field]; simp
  rw [h1]
  simp only [generate, findField_append_field _ hd, splitAtChar_append _ _ (body_no_close a spec hv),
    fieldParts_body, attrOfName_name, List.append_assoc]

def junction (done : Str) (p : List Item) : Prop :=
  done.getLast? ≠ some '%' ∨ (match p with | .lit _ :: _ => False | _ => True)

theorem noAdjLits_tail {it : Item} {p : List Item} (h : noAdjLits (it :: p) = true) : noAdjLits p = true := by
  simp only [noAdjLits, Bool.and_eq_true] at h; exact h.2

theorem generate_items : ∀ (p : List Item) (fuel : Nat) (done rest : Str) (order : List Nat) (isSet : List Bool) (k nf : Nat),
    (∀ it ∈ p, it.wf = true) → noAdjLits p = true → Clean done → junction done p →
    k + (attrsOf p).length ≤ 255 → (attrsOf p).length ≤ fuel →
    generate fuel (done ++ (printPattern p ++ rest)) order isSet k nf =
      generate (fuel - (attrsOf p).length) ((done ++ fmtOf p) ++ rest) (assign (attrsOf p) k order)
        (mark (attrsOf p) isSet) (k + (attrsOf p).length) (nf + (attrsOf p).length)
    ∧ Clean (done ++ fmtOf p) := by
  intro p
  induction p with
  | nil =>
    intro fuel done rest order isSet k nf _ _ hd _ _ _
    simp [printPattern, fmtOf, attrsOf, assign, mark, hd]
  | cons it p ih =>
    intro fuel done rest order isSet k nf hwf hadj hd hj hk hf
    have hwf' : ∀ it ∈ p, it.wf = true := fun x hx => hwf x (List.mem_cons_of_mem _ hx)
    have hadj' := noAdjLits_tail hadj
    cases it with
    | lit s =>
      have hs : Clean s := by
        have := hwf (.lit s) (by simp)
        simpa [Item.wf, Clean] using this
      have hlast : done.getLast? ≠ some '%' := by
        rcases hj with h | h
        · exact h
        · exact absurd h (by simp)
      have hd' : Clean (done ++ s) := clean_append hd hs (Or.inl hlast)
      have hj' : junction (done ++ s) p := by
        right
        cases p with
        | nil => trivial
        | cons it2 p2 =>
          cases it2 with
          | lit s2 => simp [noAdjLits] at hadj
          | field _ _ => trivial
      have := ih fuel (done ++ s) rest order isSet k nf hwf' hadj' hd' hj' (by simpa [attrsOf] using hk)
        (by simpa [attrsOf] using hf)
      simp only [printPattern, fmtOf, List.flatMap_cons, Item.print, Item.fmtText, attrsOf, List.append_assoc] at this ⊢
      exact this
    | field a spec =>
      have hv : (Item.field a spec).wf = true := hwf _ (by simp)
      simp only [attrsOf, List.length_cons] at hk hf
      obtain ⟨f, rfl⟩ : ∃ f, fuel = f + 1 := ⟨fuel - 1, by omega⟩
      have hd' : Clean (done ++ (Item.field a spec).fmtText) :=
        clean_append hd (clean_fmtText_field a spec hv) (Or.inr (by rw [fmtText_field_head]; decide))
      have hj' : junction (done ++ (Item.field a spec).fmtText) p := by
        left
        rw [List.getLast?_append, fmtText_field_last]
        simp
      have hstep := generate_field f done (printPattern p ++ rest) a spec order isSet k nf hd hv
      have hmod : (k + 1) % 256 = k + 1 := Nat.mod_eq_of_lt (by omega)
      rw [hmod] at hstep
      have := ih f (done ++ (Item.field a spec).fmtText) rest (order.set a.idx k) (isSet.set a.idx true) (k + 1) (nf + 1)
        hwf' hadj' hd' hj' (by omega) (by omega)
      simp only [printPattern, fmtOf, List.flatMap_cons, attrsOf, List.length_cons, assign, mark,
        List.append_assoc] at this hstep ⊢
      rw [hstep]
      refine ⟨?_, this.2⟩
      rw [this.1]
      congr 1 <;> omega

end Pattern
