/-!
# `quill::PatternFormatter`, `MacroMetadata`, multi-line dispatch, runtime metadata (property C12)

Anchors: `include/quill/backend/PatternFormatter.h` (`_generate_fmt_format_string`, `_set_pattern`, `format`),
`include/quill/core/MacroMetadata.h`, `include/quill/backend/BackendWorker.h`
(`_dispatch_transit_event_to_sinks`, `_process_multi_line_message`, `_apply_runtime_metadata`),
`include/quill/bundled/fmt/base.h` (`parse_format_string`, `parse_replacement_field`, `parse_format_specs`),
`include/quill/bundled/fmt/format.h` (`write(out, string_view, specs)`, `write_padded`).

Strings are `List Char`; the drivers map one byte to one `Char` (`Char.ofNat b`). fmt's width is by code point,
so the spec model is claimed for ASCII only (bytes `< 128`).

The model follows the code, quirks included:
* the scanner appends `"\n"`, repeatedly finds the first `%(`, takes everything up to the first `)`, splits at the first
  `:`, replaces the field by `{}` / `{:spec}` **in the pattern string** and rescans from the start;
  unterminated `%(` and unknown names throw; `order_index[id] = arg_idx++` (a duplicate attribute overwrites its
  earlier slot, which then stays an empty `basic_format_arg`); `arg_idx` is a `uint8_t`;
* `_set_arg` stores every attribute's *name* at `_args[order_index[a]]` (unused attributes all share slot 15);
* `format` overwrites the slots of the attributes present in the pattern (and always `Message`) and calls `vformat_to`
  on the rewritten string — so whatever literal text the user wrote is interpreted by fmt (`{{`, `}}`, `{0}`, `{x}` …);
* an empty pattern formats to the empty string (no newline).
-/
namespace Pattern

abbrev Str := List Char

/-! ## Attributes (enum `PatternFormatter::Attribute`) -/

inductive Attr
  | time | fileName | callerFunction | logLevel | logLevelShortCode | lineNumber | logger | fullPath
  | threadId | threadName | processId | sourceLocation | shortSourceLocation | message | tags | namedArgs
  deriving DecidableEq, Repr, Inhabited

/-- enum order -/
def Attr.all : List Attr :=
  [.time, .fileName, .callerFunction, .logLevel, .logLevelShortCode, .lineNumber, .logger, .fullPath,
   .threadId, .threadName, .processId, .sourceLocation, .shortSourceLocation, .message, .tags, .namedArgs]

def Attr.idx : Attr → Nat
  | .time => 0 | .fileName => 1 | .callerFunction => 2 | .logLevel => 3 | .logLevelShortCode => 4
  | .lineNumber => 5 | .logger => 6 | .fullPath => 7 | .threadId => 8 | .threadName => 9 | .processId => 10
  | .sourceLocation => 11 | .shortSourceLocation => 12 | .message => 13 | .tags => 14 | .namedArgs => 15

def Attr.name : Attr → Str
  | .time => "time".toList | .fileName => "file_name".toList | .callerFunction => "caller_function".toList
  | .logLevel => "log_level".toList | .logLevelShortCode => "log_level_short_code".toList
  | .lineNumber => "line_number".toList | .logger => "logger".toList | .fullPath => "full_path".toList
  | .threadId => "thread_id".toList | .threadName => "thread_name".toList | .processId => "process_id".toList
  | .sourceLocation => "source_location".toList | .shortSourceLocation => "short_source_location".toList
  | .message => "message".toList | .tags => "tags".toList | .namedArgs => "named_args".toList

/-- `ATTR_NR_ITEMS` -/
def nrItems : Nat := 16

/-- the order in which `format()` executes its `_set_arg_val<Attribute::X>` statements -/
def formatOrder : List Attr :=
  [.time, .fileName, .callerFunction, .logLevel, .logLevelShortCode, .lineNumber, .logger, .fullPath,
   .threadId, .threadName, .processId, .sourceLocation, .shortSourceLocation, .namedArgs, .tags, .message]

/-- name lookup of `_generate_fmt_format_string` (the `"name"_a` list, id = position) and of
    `_attribute_from_string`; the two C++ tables are extracted and proved equal to this one in `Obligations/Pattern` -/
def attrOfName (n : Str) : Option Attr := Attr.all.find? (fun a => a.name == n)

/-! ## Stage 1: the constructor (`_set_pattern` / `_generate_fmt_format_string`) -/

/-- first occurrence of `%(`: text before it and text after it -/
def findField : Str → Option (Str × Str)
  | [] => none
  | c :: rest =>
    if c = '%' ∧ rest.head? = some '(' then some ([], rest.tail)
    else (findField rest).map fun pr => (c :: pr.1, pr.2)

/-- first occurrence of the character `x`: text before it and text after it -/
def splitAtChar (x : Char) : Str → Option (Str × Str)
  | [] => none
  | c :: rest =>
    if c = x then some ([], rest) else (splitAtChar x rest).map fun pr => (c :: pr.1, pr.2)

inductive CtorErr
  | unterminated                -- `QuillError{"Invalid format pattern"}`
  | unknownAttr (name : Str)    -- `Invalid format pattern, attribute with name "…" is invalid`
  | tooManyFields               -- > 16 fields: `_args[_order_index[I]]` is written out of bounds (undefined behaviour)
  | fuel                        -- never produced (see `generate_fuel_*`); not a result of the C++
  deriving DecidableEq, Repr

structure Gen where
  fmt : Str
  order : List Nat
  isSet : List Bool
  nfields : Nat
  deriving DecidableEq, Repr

/-- `%(body)` ↦ attribute name and the replacement text -/
def fieldParts (body : Str) : Str × Str :=
  match splitAtChar ':' body with
  | some (n, spec) => (n, '{' :: ':' :: (spec ++ ['}']))
  | none => (body, ['{', '}'])

/-- the `while (arg_identifier_pos != npos)` loop; one unit of fuel per replaced field -/
def generate : Nat → Str → List Nat → List Bool → Nat → Nat → Except CtorErr Gen
  | 0, pat, order, isSet, _, nf =>
    match findField pat with
    | none => .ok ⟨pat, order, isSet, nf⟩
    | some _ => .error .fuel
  | fuel + 1, pat, order, isSet, argIdx, nf =>
    match findField pat with
    | none => .ok ⟨pat, order, isSet, nf⟩
    | some (pre, rest) =>
      match splitAtChar ')' rest with
      | none => .error .unterminated
      | some (body, post) =>
        match attrOfName (fieldParts body).1 with
        | none => .error (.unknownAttr (fieldParts body).1)
        | some a =>
          generate fuel (pre ++ ((fieldParts body).2 ++ post)) (order.set a.idx argIdx) (isSet.set a.idx true)
            ((argIdx + 1) % 256) (nf + 1)

structure Compiled where
  empty : Bool                  -- `_options.format_pattern.empty()`
  fmt : Str                     -- `_fmt_format`
  order : List Nat              -- `_order_index`
  isSet : List Bool             -- `_is_set_in_pattern`
  args : List (Option Str)      -- `_args` after the sixteen `_set_arg` calls (`none` = empty `basic_format_arg`)
  deriving DecidableEq, Repr

/-- the sixteen `_set_arg<Attribute::X>(name)` calls of `_set_pattern`, in enum order -/
def setArgs (order : List Nat) : List (Option Str) :=
  Attr.all.foldl (fun args a => args.set (order.getD a.idx (nrItems - 1)) (some a.name)) (List.replicate nrItems none)

def construct (pattern : Str) : Except CtorErr Compiled :=
  match generate (pattern.length + 1) (pattern ++ ['\n']) (List.replicate nrItems (nrItems - 1))
      (List.replicate nrItems false) 0 0 with
  | .error e => .error e
  | .ok g =>
    if g.nfields > nrItems then .error .tooManyFields
    else .ok { empty := pattern.isEmpty, fmt := g.fmt, order := g.order, isSet := g.isSet, args := setArgs g.order }

/-! ## fmt: format specs for string arguments -/

inductive Align | left | right | center
  deriving DecidableEq, Repr

/-- `[[fill]align][width][.precision]`; `width = 0` = absent (as in `format_specs`) -/
structure Spec where
  fill : Option Char := none
  align : Option Align := none
  width : Nat := 0
  prec : Option Nat := none
  deriving DecidableEq, Repr

def alignOf (c : Char) : Option Align :=
  if c = '<' then some .left else if c = '>' then some .right else if c = '^' then some .center else none

def Align.char : Align → Char | .left => '<' | .right => '>' | .center => '^'

def intMax : Nat := 2147483647

def isDigit (c : Char) : Bool := '0' ≤ c ∧ c ≤ '9'

def digitVal (c : Char) : Nat := c.toNat - 48

def valOfDigits (ds : Str) : Nat := ds.foldl (fun acc c => acc * 10 + digitVal c) 0

/-- `parse_nonnegative_int`: at most 9 digits, or 10 digits with value ≤ INT_MAX; otherwise "number is too big" -/
def parseNat (ds : Str) : Option Nat :=
  if ds.length ≤ 9 then some (valOfDigits ds)
  else if ds.length = 10 ∧ valOfDigits ds ≤ intMax then some (valOfDigits ds)
  else none

inductive FErr
  | format        -- a `fmtquill::format_error` is thrown
  | unsupported   -- accepted (or possibly accepted) by fmt but outside the modelled subset: no claim
  deriving DecidableEq, Repr

/-- presentation types fmt accepts for (c)string arguments (`s`, `?`, `p`) and dynamic width/precision: not modelled -/
def unmodelledStart (c : Char) : Bool := c = 's' ∨ c = '?' ∨ c = 'p' ∨ c = '{'

/-- after the precision -/
def parseSpecEnd (sp : Spec) : Str → Except FErr Spec
  | [] => .ok sp
  | c :: _ => if unmodelledStart c then .error .unsupported else .error .format

/-- `[.precision]` -/
def parseSpecPrec (sp : Spec) : Str → Except FErr Spec
  | [] => .ok sp
  | c :: r =>
    if c = '.' then
      match r with
      | [] => .error .format
      | d :: _ =>
        if isDigit d then
          match parseNat (r.takeWhile isDigit) with
          | none => .error .format
          | some p => parseSpecEnd { sp with prec := some p } (r.dropWhile isDigit)
        else if d = '{' then .error .unsupported
        else .error .format
    else if unmodelledStart c then .error .unsupported
    else .error .format

/-- `[width][.precision]` -/
def parseSpecWidth (sp : Spec) : Str → Except FErr Spec
  | [] => .ok sp
  | c :: r =>
    if isDigit c ∧ c ≠ '0' then
      match parseNat ((c :: r).takeWhile isDigit) with
      | none => .error .format
      | some w => parseSpecPrec { sp with width := w } ((c :: r).dropWhile isDigit)
    else parseSpecPrec sp (c :: r)

/-- `parse_format_specs` for an argument of string type on the text between `:` and the closing `}` -/
def parseSpec (s : Str) : Except FErr Spec :=
  if s.any (fun c => c.toNat ≥ 128) then .error .unsupported else
  match s with
  | a :: b :: r =>
    match alignOf b with
    | some al => if a = '{' then .error .format else parseSpecWidth { fill := some a, align := some al } r
    | none =>
      match alignOf a with
      | some al => parseSpecWidth { align := some al } (b :: r)
      | none => parseSpecWidth {} s
  | [a] =>
    match alignOf a with
    | some al => .ok { align := some al }
    | none => parseSpecWidth {} s
  | [] => .ok {}

/-- `write(out, string_view, specs)` + `write_padded` (default alignment left) for ASCII text -/
def applySpec (sp : Spec) (v : Str) : Str :=
  let v' := match sp.prec with | some p => v.take p | none => v
  let pad := sp.width - v'.length
  let left := match sp.align with | some .right => pad | some .center => pad / 2 | _ => 0
  let f := sp.fill.getD ' '
  List.replicate left f ++ v' ++ List.replicate (pad - left) f

/-! ## fmt: `vformat_to` on the rewritten string -/

/-- `parse_context::next_arg_id_`: `auto n` = n automatic ids handed out, `manual` = -1 -/
inductive ArgIdx | auto (n : Nat) | manual
  deriving DecidableEq, Repr

def isNameStart (c : Char) : Bool := ('a' ≤ c ∧ c ≤ 'z') ∨ ('A' ≤ c ∧ c ≤ 'Z') ∨ c = '_'

def getArg (args : List (Option Str)) (i : Nat) : Option Str := (args[i]?).join

/-- apply the optional spec text (after the `:`) to the argument -/
def renderArg (v : Str) : Option Str → Except FErr Str
  | none => .ok v
  | some spec => (parseSpec spec).map fun sp => applySpec sp v

/-- the text between `{` and the first `}` ↦ rendered argument and the new indexing state -/
def interpField (args : List (Option Str)) (ix : ArgIdx) (content : Str) : Except FErr (Str × ArgIdx) :=
  let autoArg (spec : Option Str) : Except FErr (Str × ArgIdx) :=
    match ix with
    | .manual => .error .format                  -- cannot switch from manual to automatic argument indexing
    | .auto n =>
      match getArg args n with
      | none => .error .format                   -- argument not found
      | some v => (renderArg v spec).map fun t => (t, .auto (n + 1))
  let manualArg (i : Nat) (spec : Option Str) : Except FErr (Str × ArgIdx) :=
    match ix with
    | .auto (_ + 1) => .error .format            -- cannot switch from automatic to manual argument indexing
    | _ =>
      match getArg args i with
      | none => .error .format
      | some v => (renderArg v spec).map fun t => (t, .manual)
  match content with
  | [] => autoArg none
  | c :: r =>
    if c = ':' then autoArg (some r)
    else if c = '0' then
      match r with
      | [] => manualArg 0 none
      | d :: r' => if d = ':' then manualArg 0 (some r') else .error .format
    else if isDigit c then
      let i := valOfDigits (content.takeWhile isDigit)
      match content.dropWhile isDigit with
      | [] => manualArg i none
      | d :: r' => if d = ':' then manualArg i (some r') else .error .format
    else .error .format                          -- named argument (never found: no named args are passed) or junk

/-- scanner state of `parse_format_string` -/
inductive PS
  | text                  -- literal text
  | opened                -- just read `{`
  | field (acc : Str)     -- inside a replacement field; `acc` = its text so far, reversed
  | closed                -- just read `}` in literal text
  deriving DecidableEq, Repr

/-- `parse_format_string` with `format_handler`. (For every field that fmt accepts without dynamic width/precision
    the field ends at the first `}` after its `{`; `{{` and `}}` are the escapes.) -/
def vfmt (args : List (Option Str)) : Str → ArgIdx → PS → Except FErr Str
  | [], _, .text => .ok []
  | [], _, _ => .error .format
  | c :: rest, ix, .text =>
    if c = '{' then vfmt args rest ix .opened
    else if c = '}' then vfmt args rest ix .closed
    else (vfmt args rest ix .text).map (c :: ·)
  | c :: rest, ix, .opened =>
    if c = '{' then (vfmt args rest ix .text).map ('{' :: ·)
    else if c = '}' then
      match interpField args ix [] with
      | .ok (v, ix') => (vfmt args rest ix' .text).map (v ++ ·)
      | .error e => .error e
    else vfmt args rest ix (.field [c])
  | c :: rest, ix, .field acc =>
    if c = '}' then
      match interpField args ix acc.reverse with
      | .ok (v, ix') => (vfmt args rest ix' .text).map (v ++ ·)
      | .error e => .error e
    else vfmt args rest ix (.field (c :: acc))
  | c :: rest, ix, .closed =>
    if c = '}' then (vfmt args rest ix .text).map ('}' :: ·) else .error .format

def vformat (fmt : Str) (args : List (Option Str)) : Except FErr Str := vfmt args fmt (.auto 0) .text

/-! ## Stage 2: `PatternFormatter::format` -/

/-- the `_set_arg_val` statements of `format()`: attributes present in the pattern, and always `Message` -/
def fillArgs (c : Compiled) (vals : Attr → Str) : List (Option Str) :=
  formatOrder.foldl (fun args a =>
    if c.isSet.getD a.idx false || a == .message then args.set (c.order.getD a.idx (nrItems - 1)) (some (vals a))
    else args) c.args

def format (c : Compiled) (vals : Attr → Str) : Except FErr Str :=
  if c.empty then .ok [] else vformat c.fmt (fillArgs c vals)

inductive Result
  | line (s : Str)
  | ctorError (e : CtorErr)
  | formatError
  | unsupported
  deriving DecidableEq, Repr

/-- construct a formatter for `pattern`, format one statement -/
def formatPattern (pattern : Str) (vals : Attr → Str) : Result :=
  match construct pattern with
  | .error e => .ctorError e
  | .ok c =>
    match format c vals with
    | .ok s => .line s
    | .error .format => .formatError
    | .error .unsupported => .unsupported

/-! ## Patterns as data: literal chunks and `%(attr[:spec])` fields -/

inductive Item
  | lit (s : Str)
  | field (a : Attr) (spec : Option Spec)
  deriving DecidableEq, Repr

def digitChar (d : Nat) : Char := Char.ofNat (48 + d)

/-- decimal digits, most significant first (`fuel` ≥ number of digits) -/
def digitsAux : Nat → Nat → Str → Str
  | 0, _, acc => acc
  | fuel + 1, n, acc => if n < 10 then digitChar n :: acc else digitsAux fuel (n / 10) (digitChar (n % 10) :: acc)

def digits (n : Nat) : Str := digitsAux (n + 1) n []

def Spec.print (sp : Spec) : Str :=
  (match sp.fill with | some c => [c] | none => []) ++
  (match sp.align with | some a => [a.char] | none => []) ++
  (if sp.width = 0 then [] else digits sp.width) ++
  (match sp.prec with | some p => '.' :: digits p | none => [])

def Item.print : Item → Str
  | .lit s => s
  | .field a none => '%' :: '(' :: (a.name ++ [')'])
  | .field a (some sp) => '%' :: '(' :: (a.name ++ ':' :: (sp.print ++ [')']))

def printPattern (p : List Item) : Str := p.flatMap Item.print

/-- direct substitution -/
def render (vals : Attr → Str) : Item → Str
  | .lit s => s
  | .field a none => vals a
  | .field a (some sp) => applySpec sp (vals a)

def Item.isLit : Item → Bool | .lit _ => true | _ => false

def attrsOf : List Item → List Attr
  | [] => []
  | .lit _ :: p => attrsOf p
  | .field a _ :: p => a :: attrsOf p

/-- specs in the modelled subset: a fill needs an alignment, is ASCII and is none of `{ } )`; bounds of `int` -/
def Spec.valid (sp : Spec) : Bool :=
  (match sp.fill with
   | some c => sp.align.isSome && c != '{' && c != '}' && c != ')' && decide (c.toNat < 128)
   | none => true) &&
  decide (sp.width ≤ intMax) &&
  (match sp.prec with | some p => decide (p ≤ intMax) | none => true)

/-- no two literal chunks side by side (merge them: `render` is a concatenation) -/
def noAdjLits : List Item → Bool
  | [] => true
  | it :: p => (match it, p with | .lit _, .lit _ :: _ => false | _, _ => true) && noAdjLits p

def Item.wf : Item → Bool
  | .lit s => (findField s).isNone
  | .field _ none => true
  | .field _ (some sp) => sp.valid

/-- well-formed pattern: literal chunks contain no `%(`, specs valid, every attribute at most once -/
def WF (p : List Item) : Prop := (∀ it ∈ p, it.wf = true) ∧ noAdjLits p = true ∧ (attrsOf p).Nodup

/-- F7 hypothesis: no `{` or `}` in literal text -/
def Item.noBrace : Item → Bool
  | .lit s => !s.contains '{' && !s.contains '}'
  | .field _ _ => true

def NoBrace (p : List Item) : Prop := ∀ it ∈ p, it.noBrace = true

instance (p : List Item) : Decidable (WF p) := by unfold WF; infer_instance
instance (p : List Item) : Decidable (NoBrace p) := by unfold NoBrace; infer_instance

/-! ## `MacroMetadata` : views of `"path:line"` -/

/-- `_calc_colon_separator_pos` : `rfind(':')` -/
def rfindColon (src : Str) : Option Nat :=
  let rec go : Str → Nat → Option Nat → Option Nat
    | [], _, last => last
    | c :: cs, i, last => go cs (i + 1) (if c = ':' then some i else last)
  go src 0 none

/-- `_calc_file_name_pos` : index after the last `/` (0 if none) -/
def fileNamePos (src : Str) : Nat :=
  let rec go : Str → Nat → Nat → Nat
    | [], _, file => file
    | c :: cs, i, file => go cs (i + 1) (if c = '/' then i + 1 else file)
  go src 0 0

structure MetaView where
  fileName : Str
  fullPath : Str
  line : Str
  shortSourceLocation : Str
  sourceLocation : Str
  deriving DecidableEq, Repr

/-- both positions are stored as `uint16_t`. `none`: the C++ would read outside the string
    (no `:` at all, or the truncated file-name position lies behind the truncated colon position). -/
def metaView (src : Str) : Option MetaView :=
  match rfindColon src with
  | none => none
  | some colon =>
    let c16 := colon % 65536
    let f16 := fileNamePos src % 65536
    if f16 > c16 then none
    else some {
      fileName := (src.drop f16).take (c16 - f16)
      fullPath := src.take c16
      line := src.drop (c16 + 1)
      shortSourceLocation := src.drop f16
      sourceLocation := src }

/-- `%(named_args)`: `k: v, k: v` -/
def joinNamed : List (Str × Str) → Str
  | [] => []
  | [(k, v)] => k ++ ':' :: ' ' :: v
  | (k, v) :: rest => k ++ ':' :: ' ' :: (v ++ ',' :: ' ' :: joinNamed rest)

/-- what `BackendWorker::_write_log_statement` passes to `format` -/
structure Stmt where
  time : Str
  threadId : Str
  threadName : Str
  processId : Str
  logger : Str
  levelDesc : Str
  levelShort : Str
  src : Str                                  -- `MacroMetadata::source_location()`
  caller : Str
  tags : Option Str                          -- may be `nullptr`
  named : Option (List (Str × Str))          -- may be `nullptr`
  deriving Repr

def valuation (s : Stmt) (mv : MetaView) (msg : Str) : Attr → Str
  | .time => s.time | .fileName => mv.fileName | .callerFunction => s.caller | .logLevel => s.levelDesc
  | .logLevelShortCode => s.levelShort | .lineNumber => mv.line | .logger => s.logger | .fullPath => mv.fullPath
  | .threadId => s.threadId | .threadName => s.threadName | .processId => s.processId
  | .sourceLocation => mv.sourceLocation | .shortSourceLocation => mv.shortSourceLocation
  | .message => msg | .tags => s.tags.getD [] | .namedArgs => joinNamed (s.named.getD [])

/-! ## Multi-line dispatch (`_dispatch_transit_event_to_sinks`, `_process_multi_line_message`) -/

/-- "if the log_message ends with \n we should exclude it" -/
def stripOneNl (msg : Str) : Str := if msg.getLast? = some '\n' then msg.dropLast else msg

/-- the `while (start < msg.size())` loop on the suffix `msg[start..]` -/
def mlLoop : Nat → Str → List Str
  | 0, _ => []
  | fuel + 1, rest =>
    if rest = [] then []
    else match splitAtChar '\n' rest with
      | none => [rest]
      | some (l, r) => l :: mlLoop fuel r

def multiLine (msg : Str) : List Str := if msg = [] then [[]] else mlLoop (msg.length + 1) msg

/-- the message pieces that are formatted, each as one statement -/
def dispatch (addMetadata : Bool) (namedEmpty : Bool) (msg : Str) : List Str :=
  if addMetadata && namedEmpty then multiLine msg else [stripOneNl msg]

/-- the statements one log call hands to a sink (`_write_log_statement` per piece) -/
def statements (pattern : Str) (st : Stmt) (mv : MetaView) (addMetadata : Bool) (msg : Str) : List Result :=
  (dispatch addMetadata (st.named.getD []).isEmpty msg).map fun piece => formatPattern pattern (valuation st mv piece)

/-! ## Runtime metadata (`_apply_runtime_metadata`) -/

/-- `QUILL_MAGIC_SEPARATOR` -/
def magicSep : Str := [Char.ofNat 1, Char.ofNat 2, Char.ofNat 3]

/-- `string_view::find(delimiter)`: text before and after the first occurrence -/
def splitSep (sep : Str) : Str → Option (Str × Str)
  | [] => none
  | c :: cs =>
    if sep.isPrefixOf (c :: cs) then some ([], (c :: cs).drop sep.length)
    else (splitSep sep cs).map fun pr => (c :: pr.1, pr.2)

structure RuntimeMeta where
  message : Str
  fileline : Str
  function : Str
  deriving DecidableEq, Repr

/-- `message SEP file SEP line SEP function`; `none` when fewer than three separators are present (the C++ then
    computes with `npos`; the macro always supplies three) -/
def applyRuntimeMeta (formatted : Str) : Option RuntimeMeta :=
  match splitSep magicSep formatted with
  | none => none
  | some (m, r1) =>
    match splitSep magicSep r1 with
    | none => none
    | some (file, r2) =>
      match splitSep magicSep r2 with
      | none => none
      | some (line, fn) => some { message := m, fileline := file ++ ':' :: line, function := fn }

end Pattern
