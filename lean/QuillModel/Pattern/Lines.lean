import QuillModel.Pattern.Basic
/-! Multi-line dispatch: the `while (start < msg.size())` loop of `_process_multi_line_message` equals
`List.splitOn '\n'` of the message with at most one trailing newline removed. -/
namespace Pattern

theorem splitOn_of_not_mem {s : Str} (h : '\n' ∉ s) : s.splitOn '\n' = [s] := by
  rw [List.splitOn_eq_splitOnP]
  apply List.splitOnP_eq_singleton
  intro x hx
  simp only [beq_eq_false_iff_ne, ne_eq]
  intro e; exact h (e ▸ hx)

theorem splitOn_append_nl {l r : Str} (h : '\n' ∉ l) : (l ++ '\n' :: r).splitOn '\n' = l :: r.splitOn '\n' := by
  rw [List.splitOn_eq_splitOnP, List.splitOn_eq_splitOnP]
  apply List.splitOnP_append_cons_of_forall_mem
  · intro x hx
    simp only [beq_eq_false_iff_ne, ne_eq]
    intro e; exact h (e ▸ hx)
  · simp

theorem stripOneNl_of_not_mem {s : Str} (h : '\n' ∉ s) : stripOneNl s = s := by
  unfold stripOneNl
  split
  · rename_i hl
    exact absurd (List.mem_of_getLast? hl) h
  · rfl

theorem stripOneNl_append_nl_cons (l : Str) (c : Char) (r : Str) :
    stripOneNl (l ++ '\n' :: c :: r) = l ++ '\n' :: stripOneNl (c :: r) := by
  have h1 : (l ++ '\n' :: c :: r).getLast? = (c :: r).getLast? := by
    rw [show l ++ '\n' :: c :: r = (l ++ ['\n']) ++ (c :: r) by simp]
    rw [List.getLast?_append]
    simp [List.getLast?_eq_some_getLast (l := c :: r) (by simp)]
  unfold stripOneNl
  rw [h1]
  split
  · rw [show l ++ '\n' :: c :: r = (l ++ ['\n']) ++ (c :: r) by simp, List.dropLast_append_of_ne_nil (by simp)]
    simp
  · rfl

theorem stripOneNl_append_nl (l : Str) : stripOneNl (l ++ ['\n']) = l := by
  unfold stripOneNl
  simp

theorem mlLoop_eq : ∀ (fuel : Nat) (rest : Str), rest.length < fuel → rest ≠ [] →
    mlLoop fuel rest = (stripOneNl rest).splitOn '\n' := by
  intro fuel
  induction fuel with
  | zero => intro rest h; omega
  | succ fuel ih =>
    intro rest hlen hne
    simp only [mlLoop, hne, if_false]
    cases hs : splitAtChar '\n' rest with
    | none =>
      have hn := splitAtChar_none.mp hs
      simp only [stripOneNl_of_not_mem hn, splitOn_of_not_mem hn]
    | some pr =>
      obtain ⟨l, r⟩ := pr
      obtain ⟨e, hn⟩ := splitAtChar_some hs
      simp only
      subst e
      cases r with
      | nil =>
        have : mlLoop fuel [] = [] := by cases fuel <;> simp [mlLoop]
        rw [this, stripOneNl_append_nl, splitOn_of_not_mem hn]
      | cons c r =>
        rw [stripOneNl_append_nl_cons, splitOn_append_nl hn]
        congr 1
        apply ih
        · simp at hlen ⊢; omega
        · simp

/-- `_process_multi_line_message` = split at every newline after removing at most one trailing newline -/
theorem multiLine_eq_splitOn (msg : Str) : multiLine msg = (stripOneNl msg).splitOn '\n' := by
  unfold multiLine
  split
  · rename_i h; subst h; rfl
  · rename_i h; exact mlLoop_eq _ _ (by omega) h

end Pattern
