import QuillModel.Codec.Lemmas
/-! The encode pass needs *every* entry of its window: a cache that ends inside the window makes it fault. Together with
    `encode_spec` (nothing outside the window matters, the index ends one past it) this pins the set of cache entries the
    encode pass consumes to exactly the entries the size pass pushed. -/
namespace Codec

/-- the cache ends strictly inside the window `xs` that should start at index `i` -/
def Short (c : Cache) (i : Nat) (xs : List Nat) : Prop := ∃ m, m < xs.length ∧ c.data.drop i = xs.take m

theorem Short.nil {c : Cache} {i : Nat} : ¬ Short c i [] := by
  rintro ⟨m, hm, _⟩; simp at hm

theorem Short.head_or {c : Cache} {i x : Nat} {xs : List Nat} (h : Short c i (x :: xs)) :
    c.data[i]? = none ∨ (c.data[i]? = some x ∧ Short c (i + 1) xs) := by
  obtain ⟨m, hm, hd⟩ := h
  cases m with
  | zero =>
    left
    have : (c.data.drop i).head? = none := by rw [hd]; rfl
    simpa [List.head?_drop] using this
  | succ m =>
    right
    have h1 : (c.data.drop i).head? = some x := by rw [hd]; rfl
    refine ⟨by simpa [List.head?_drop] using h1, m, by simpa using hm, ?_⟩
    have := congrArg List.tail hd
    simpa [List.tail_drop] using this

theorem Short.append {c : Cache} {i : Nat} {xs ys : List Nat} (h : Short c i (xs ++ ys)) :
    Short c i xs ∨ (Window c i xs ∧ Short c (i + xs.length) ys) := by
  obtain ⟨m, hm, hd⟩ := h
  by_cases hlt : m < xs.length
  · left
    exact ⟨m, hlt, by rw [hd, List.take_append_of_le_length (by omega)]⟩
  · right
    have hge : xs.length ≤ m := by omega
    have htake : (xs ++ ys).take m = xs ++ ys.take (m - xs.length) := by
      rw [List.take_append]
      rw [List.take_of_length_le hge]
    refine ⟨⟨ys.take (m - xs.length), by rw [hd, htake]⟩, m - xs.length, ?_, ?_⟩
    · simp only [List.length_append] at hm; omega
    · have := congrArg (List.drop xs.length) hd
      rw [List.drop_drop] at this
      rw [this, htake, List.drop_left]

mutual
theorem encode_short (old : Mem) : ∀ (a : Arg) (c : Cache) (i pos : Nat), wf a = true → Short c i (lens a) →
    encode old c i pos a = none
  | .prim _ _, _, _, _, _, hs => by simp only [lens] at hs; exact absurd hs Short.nil
  | .cstr none, c, i, pos, _, hs => by
    simp only [lens] at hs
    rcases hs.head_or with h | ⟨_, h⟩
    · simp [encode, h]
    · exact absurd h Short.nil
  | .cstr (some m), c, i, pos, _, hs => by
    simp only [lens] at hs
    rcases hs.head_or with h | ⟨_, h⟩
    · simp [encode, h]
    · exact absurd h Short.nil
  | .carr m, c, i, pos, _, hs => by
    simp only [lens] at hs
    rcases hs.head_or with h | ⟨_, h⟩
    · simp [encode, h]
    · exact absurd h Short.nil
  | .str _, _, _, _, _, hs => by simp only [lens] at hs; exact absurd hs Short.nil
  | .seq ki es elems, c, i, pos, h, hs => by
    simp only [wf, Bool.and_eq_true, decide_eq_true_eq] at h
    obtain ⟨⟨hok, hn⟩, hh⟩ := h
    have hL : (if (ki.fastSize && fastOK ki es) = true then [] else lensL elems) = lensL elems := by
      split
      · rename_i hf
        simp only [Bool.and_eq_true] at hf
        rw [fast_lensL hf.2 hh]
      · rfl
    simp only [lens, hL] at hs
    have ih := fun i0 p hs0 => encodeL_short old elems c i0 p (homog_wfL hh) hs0
    -- either the cached element count is missing, or the elements' window is short
    have key : (if ki.pushCount = true then (c.data[i]?).map (fun n => (n, i + 1)) else some (elems.length, i)) = none ∨
        ∃ n i0, (if ki.pushCount = true then (c.data[i]?).map (fun n => (n, i + 1)) else some (elems.length, i)) = some (n, i0) ∧
          Short c i0 (lensL elems) := by
      cases hpc : ki.pushCount
      · right; exact ⟨elems.length, i, by simp, by simpa [hpc] using hs⟩
      · simp only [hpc, if_true, List.singleton_append] at hs
        rcases hs.head_or with h0 | ⟨h0, h1⟩
        · left; simp [h0]
        · right; exact ⟨elems.length % U32, i + 1, by simp [h0], h1⟩
    rcases key with h0 | ⟨n, i0, h0, h1⟩
    · simp only [encode, h0]
    · simp only [encode, h0]
      by_cases hfe : (ki.fastEncode && fastOK ki es) = true
      · simp only [Bool.and_eq_true] at hfe
        rw [fast_lensL hfe.2 hh] at h1
        exact absurd h1 Short.nil
      · simp only [hfe, Bool.false_eq_true, if_false, ih i0 _ h1]
  | .optNone _, _, _, _, _, hs => by simp only [lens] at hs; exact absurd hs Short.nil
  | .optSome a, c, i, pos, h, hs => by
    simp only [wf] at h
    simp only [lens] at hs
    simp [encode, encode_short old a c i (pos + 1) h hs]
  | .pair a b, c, i, pos, h, hs => by
    simp only [wf, Bool.and_eq_true] at h
    simp only [lens] at hs
    rcases hs.append with h1 | ⟨h1, h2⟩
    · simp [encode, encode_short old a c i pos h.1 h1]
    · simp [encode, encode_spec old a c i pos h.1 h1, encode_short old b c _ _ h.2 h2]
  | .tuple l, c, i, pos, h, hs => by
    simp only [wf] at h
    simp only [lens] at hs
    simp [encode, encodeL_short old l c i pos h hs]
  | .pod _, _, _, _, _, hs => by simp only [lens] at hs; exact absurd hs Short.nil
  | .nonpod _ _, _, _, _, _, hs => by simp only [lens] at hs; exact absurd hs Short.nil
  | .direct text, c, i, pos, _, hs => by
    simp only [lens] at hs
    rcases hs.head_or with h | ⟨_, h⟩
    · simp [encode, h]
    · exact absurd h Short.nil
  | .sref _ _, _, _, _, _, hs => by simp only [lens] at hs; exact absurd hs Short.nil
  | .path _, _, _, _, _, hs => by simp only [lens] at hs; exact absurd hs Short.nil
theorem encodeL_short (old : Mem) : ∀ (as : List Arg) (c : Cache) (i pos : Nat), wfL as = true → Short c i (lensL as) →
    encodeL old c i pos as = none
  | [], _, _, _, _, hs => by simp only [lensL] at hs; exact absurd hs Short.nil
  | a :: as, c, i, pos, h, hs => by
    simp only [wfL, Bool.and_eq_true] at h
    simp only [lensL] at hs
    rcases hs.append with h1 | ⟨h1, h2⟩
    · simp [encodeL, encode_short old a c i pos h.1 h1]
    · simp [encodeL, encode_spec old a c i pos h.1 h1, encodeL_short old as c _ _ h.2 h2]
end

/-- a window is a statement about the entries `i … i + |xs| − 1` only -/
theorem window_iff (c : Cache) (i : Nat) (xs : List Nat) :
    Window c i xs ↔ ∀ j, j < xs.length → c.data[i + j]? = xs[j]? := by
  constructor
  · rintro ⟨post, hp⟩ j hj
    have : (c.data.drop i)[j]? = (xs ++ post)[j]? := by rw [hp]
    rw [List.getElem?_drop] at this
    rw [this, List.getElem?_append_left hj]
  · intro h
    refine ⟨c.data.drop (i + xs.length), ?_⟩
    apply List.ext_getElem?
    intro j
    rw [List.getElem?_drop]
    by_cases hj : j < xs.length
    · rw [h j hj, List.getElem?_append_left hj]
    · have hge : xs.length ≤ j := by omega
      rw [List.getElem?_append_right hge, List.getElem?_drop]
      congr 1; omega

end Codec
