import QuillModel.Codec.Statement
/-! Helper lemmas for C11: when the size cache reallocates, which arguments run user code on the caller. -/
namespace Codec

/-- new capacities produced by pushing `k` entries onto a vector with `len` live entries and capacity `cap` -/
def growSteps : Nat → Nat → Nat → List Nat
  | _, _, 0 => []
  | cap, len, k + 1 => if len = cap then (2 * cap) :: growSteps (2 * cap) (len + 1) k else growSteps cap (len + 1) k

/-- capacity after those pushes -/
def capAfter : Nat → Nat → Nat → Nat
  | cap, _, 0 => cap
  | cap, len, k + 1 => if len = cap then capAfter (2 * cap) (len + 1) k else capAfter cap (len + 1) k

theorem pushAll_grown (xs : List Nat) : ∀ (c : Cache),
    (c.pushAll xs).grown = c.grown ++ growSteps c.cap c.data.length xs.length ∧
    (c.pushAll xs).cap = capAfter c.cap c.data.length xs.length := by
  induction xs with
  | nil => intro c; simp [pushAll_nil, growSteps, capAfter]
  | cons x xs ih =>
    intro c
    rw [pushAll_cons]
    obtain ⟨h1, h2⟩ := ih (c.push x)
    rw [h1, h2, push_data]
    simp only [List.length_append, List.length_cons, growSteps, capAfter]
    unfold Cache.push
    split <;> simp

/-- **no reallocation iff the entries fit the current capacity** -/
theorem growSteps_eq_nil : ∀ (k cap len : Nat), len ≤ cap → (growSteps cap len k = [] ↔ (k = 0 ∨ len + k ≤ cap))
  | 0, _, _, _ => by simp [growSteps]
  | k + 1, cap, len, h => by
    simp only [growSteps]
    split
    · rename_i he; simp; omega
    · rename_i hne
      have := growSteps_eq_nil k cap (len + 1) (by omega)
      rw [this]; omega

theorem capAfter_of_fit : ∀ (k cap len : Nat), len + k ≤ cap → capAfter cap len k = cap
  | 0, _, _, _ => rfl
  | k + 1, cap, len, h => by
    simp only [capAfter]
    split
    · omega
    · exact capAfter_of_fit k cap (len + 1) (by omega)

/-- the capacity never shrinks and always covers the live entries -/
theorem capAfter_ge : ∀ (k cap len : Nat), 0 < cap → len ≤ cap → cap ≤ capAfter cap len k ∧ len + k ≤ capAfter cap len k
  | 0, _, _, _, h => ⟨Nat.le_refl _, h⟩
  | k + 1, cap, len, hc, h => by
    simp only [capAfter]
    split
    · have := capAfter_ge k (2 * cap) (len + 1) (by omega) (by omega); omega
    · have := capAfter_ge k cap (len + 1) hc (by omega); omega

/-! ### the budget of the size cache: which arguments take a slot -/

mutual
/-- takes no slot of the size cache, at any depth: no C string / `char[N]` / direct-format value inside and no
    container that caches its element count -/
def slotFree : Arg → Bool
  | .cstr _ => false
  | .carr _ => false
  | .direct _ => false
  | .seq ki _ elems => !ki.pushCount && slotFreeL elems
  | .optSome a => slotFree a
  | .pair a b => slotFree a && slotFree b
  | .tuple l => slotFreeL l
  | _ => true
def slotFreeL : List Arg → Bool
  | [] => true
  | a :: as => slotFree a && slotFreeL as
end

/-- a variable-length C-string argument: `char const*` / `char*` (null included) or `char[N]` -/
def cstrLike : Arg → Bool
  | .cstr _ => true
  | .carr _ => true
  | _ => false

/-- the number of variable-length C-string arguments of a statement -/
def countCStr (args : List Arg) : Nat := (args.filter cstrLike).length

mutual
theorem slotFree_lens : ∀ (a : Arg), slotFree a = true → lens a = []
  | .prim _ _, _ => by simp [lens]
  | .cstr _, h => by simp [slotFree] at h
  | .carr _, h => by simp [slotFree] at h
  | .str _, _ => by simp [lens]
  | .seq ki es elems, h => by
    simp only [slotFree, Bool.and_eq_true, Bool.not_eq_true'] at h
    simp [lens, h.1, slotFreeL_lens elems h.2]
  | .optNone _, _ => by simp [lens]
  | .optSome a, h => by simp only [slotFree] at h; simp [lens, slotFree_lens a h]
  | .pair a b, h => by
    simp only [slotFree, Bool.and_eq_true] at h
    simp [lens, slotFree_lens a h.1, slotFree_lens b h.2]
  | .tuple l, h => by simp only [slotFree] at h; simp [lens, slotFreeL_lens l h]
  | .pod _, _ => by simp [lens]
  | .nonpod _ _, _ => by simp [lens]
  | .direct _, h => by simp [slotFree] at h
  | .sref _ _, _ => by simp [lens]
  | .path _, _ => by simp [lens]
theorem slotFreeL_lens : ∀ (as : List Arg), slotFreeL as = true → lensL as = []
  | [], _ => by simp [lensL]
  | a :: as, h => by
    simp only [slotFreeL, Bool.and_eq_true] at h
    simp [lensL, slotFree_lens a h.1, slotFreeL_lens as h.2]
end

theorem cstrLike_lens (a : Arg) (h : cstrLike a = true) : (lens a).length = 1 := by
  cases a with
  | cstr m => cases m <;> simp [lens]
  | carr m => simp [lens]
  | _ => simp [cstrLike] at h

/-- a statement made of C strings and of arguments that take no slot caches one length per C string -/
theorem budget_length : ∀ (args : List Arg), args.all (fun a => cstrLike a || slotFree a) = true →
    (lensL args).length = countCStr args
  | [], _ => by simp [lensL, countCStr]
  | a :: as, h => by
    simp only [List.all_cons, Bool.and_eq_true, Bool.or_eq_true] at h
    have ih := budget_length as h.2
    simp only [countCStr] at ih ⊢
    simp only [lensL, List.length_append, ih, List.filter_cons]
    cases hc : cstrLike a
    · have hs : slotFree a = true := by simpa [hc] using h.1
      simp [slotFree_lens a hs]
    · simp [cstrLike_lens a hc]; omega

/-! ### the queue between log calls -/

theorem drain_cap (pub : Bool) (pct : Nat) (q : Queue) : (q.drain pub pct).cap = q.cap ∧ (q.drain pub pct).maxCap = q.maxCap := by
  unfold Queue.drain; split <;> simp

theorem drain_publish_used (pct : Nat) (q : Queue) : (q.drain true pct).used = 0 := by
  simp [Queue.drain]

theorem run_append (f : Frame) (pub : Bool) (pct : Nat) (fe : Frontend) (ops1 ops2 : List FOp) :
    Frontend.run f pub pct fe (ops1 ++ ops2) = Frontend.run f pub pct (Frontend.run f pub pct fe ops1) ops2 := by
  simp [Frontend.run, List.foldl_append]

/-- once a thread has logged it stays registered -/
theorem run_registered (f : Frame) (pub : Bool) (pct : Nat) : ∀ (ops : List FOp) (fe : Frontend),
    fe.registered = true → (Frontend.run f pub pct fe ops).registered = true
  | [], fe, h => by simpa [Frontend.run] using h
  | op :: ops, fe, h => by
    have : (Frontend.step f pub pct fe op).registered = true := by
      cases op <;> simp [Frontend.step, logCall, h]
    simpa [Frontend.run] using run_registered f pub pct ops _ this

/-! ### which arguments run user code on the calling thread -/

mutual
/-- the argument types C11 lists: no direct-format type, no filesystem path, no non trivially copyable deferred type
    anywhere inside -/
def listed : Arg → Bool
  | .seq ki es elems => !copiesPairs ki es && listedL elems
  | .optSome a => listed a
  | .pair a b => listed a && listed b
  | .tuple l => listedL l
  | .nonpod _ _ => false
  | .direct _ => false
  | .path _ => false
  | _ => true
def listedL : List Arg → Bool
  | [] => true
  | a :: as => listed a && listedL as
end

mutual
/-- number of direct-format arguments, at any depth -/
def countDirect : Arg → Nat
  | .seq _ _ elems => countDirectL elems
  | .optSome a => countDirect a
  | .pair a b => countDirect a + countDirect b
  | .tuple l => countDirectL l
  | .direct _ => 1
  | _ => 0
def countDirectL : List Arg → Nat
  | [] => 0
  | a :: as => countDirect a + countDirectL as
end

mutual
theorem listed_argEvents : ∀ (a : Arg), listed a = true → argEvents a = []
  | .prim _ _, _ => by simp [argEvents]
  | .cstr _, _ => by simp [argEvents]
  | .carr _, _ => by simp [argEvents]
  | .str _, _ => by simp [argEvents]
  | .seq ki es elems, h => by
    simp only [listed, Bool.and_eq_true, Bool.not_eq_true'] at h
    simp [argEvents, h.1, listedL_argEvents elems h.2]
  | .optNone _, _ => by simp [argEvents]
  | .optSome a, h => by simp only [listed] at h; simp [argEvents, listed_argEvents a h]
  | .pair a b, h => by
    simp only [listed, Bool.and_eq_true] at h
    simp [argEvents, listed_argEvents a h.1, listed_argEvents b h.2]
  | .tuple l, h => by simp only [listed] at h; simp [argEvents, listedL_argEvents l h]
  | .pod _, _ => by simp [argEvents]
  | .nonpod _ _, h => by simp [listed] at h
  | .direct _, h => by simp [listed] at h
  | .sref _ _, _ => by simp [argEvents]
  | .path _, h => by simp [listed] at h
theorem listedL_argEvents : ∀ (as : List Arg), listedL as = true → argEventsL as = []
  | [], _ => by simp [argEventsL]
  | a :: as, h => by
    simp only [listedL, Bool.and_eq_true] at h
    simp [argEventsL, listed_argEvents a h.1, listedL_argEvents as h.2]
end

def isFormat (e : Event) : Bool := e == .formatCall

theorem count_append (l1 l2 : List Event) : ((l1 ++ l2).filter isFormat).length =
    (l1.filter isFormat).length + (l2.filter isFormat).length := by
  simp [List.filter_append]

mutual
theorem format_count : ∀ (a : Arg), ((argEvents a).filter isFormat).length = 2 * countDirect a
  | .prim _ _ => by simp [argEvents, countDirect]
  | .cstr _ => by simp [argEvents, countDirect]
  | .carr _ => by simp [argEvents, countDirect]
  | .str _ => by simp [argEvents, countDirect]
  | .seq ki es elems => by
    have hrep : ∀ n, ((List.replicate n Event.pairCopy).filter isFormat).length = 0 := by
      intro n; induction n with
      | zero => rfl
      | succ n ih => simp [List.replicate_succ, isFormat]
    simp only [argEvents, countDirect, count_append, format_countL elems]
    split <;> simp [hrep]
  | .optNone _ => by simp [argEvents, countDirect]
  | .optSome a => by simp [argEvents, countDirect, format_count a]
  | .pair a b => by
    simp only [argEvents, countDirect, count_append, format_count a, format_count b]; omega
  | .tuple l => by simp [argEvents, countDirect, format_countL l]
  | .pod _ => by simp [argEvents, countDirect]
  | .nonpod _ _ => by simp [argEvents, countDirect, isFormat]
  | .direct _ => by simp [argEvents, countDirect, isFormat]
  | .sref _ _ => by simp [argEvents, countDirect]
  | .path _ => by simp [argEvents, countDirect, isFormat]
theorem format_countL : ∀ (as : List Arg), ((argEventsL as).filter isFormat).length = 2 * countDirectL as
  | [] => by simp [argEventsL, countDirectL]
  | a :: as => by
    simp only [argEventsL, countDirectL, count_append, format_count a, format_countL as]; omega
end

/-- the cache the size pass starts from has no live entries that matter: it was cleared, or nothing will be pushed -/
theorem startCache_len (c : Cache) (args : List Arg) :
    (startCache c args).data.length = 0 ∨ lensL args = [] := by
  unfold startCache
  cases h : args.any needsClear
  · right; exact noClear_lensL args h
  · left; simp [Cache.clear]

theorem startCache_cap (c : Cache) (args : List Arg) :
    (startCache c args).cap = c.cap ∧ (startCache c args).grown = c.grown := by
  unfold startCache; split <;> simp [Cache.clear]

/-! ### a thread's history: registration and the size cache's capacity are monotone (audit round, for C11) -/

def FOp.isLog : FOp → Bool | .log _ _ => true | .drain => false
def FOp.wf : FOp → Bool | .log args _ => wfL args | .drain => true

theorem step_cache_cap (f : Frame) (pub : Bool) (pct : Nat) (fe : Frontend) (op : FOp) (hw : op.wf = true)
    (hc : 0 < fe.cache.cap) : fe.cache.cap ≤ (Frontend.step f pub pct fe op).cache.cap := by
  cases op with
  | drain => exact Nat.le_refl _
  | log args dyn =>
    have hs := sizeStatement_spec (fun _ => 0) fe.cache args 0 hw
    have hcap := (pushAll_grown (lensL args) (startCache fe.cache args)).2
    have hsc := startCache_cap fe.cache args
    have hcache : (Frontend.step f pub pct fe (.log args dyn)).cache = (startCache fe.cache args).pushAll (lensL args) := by
      simp only [Frontend.step, logCall, hs]
    rw [hcache, hcap, hsc.1]
    rcases startCache_len fe.cache args with h0 | h0
    · rw [h0]; exact (capAfter_ge _ _ 0 hc (Nat.zero_le _)).1
    · rw [h0]; simp [capAfter]

theorem run_cache_cap (f : Frame) (pub : Bool) (pct : Nat) : ∀ (ops : List FOp) (fe : Frontend),
    (∀ op ∈ ops, op.wf = true) → 0 < fe.cache.cap → fe.cache.cap ≤ (Frontend.run f pub pct fe ops).cache.cap
  | [], fe, _, _ => by simp [Frontend.run]
  | op :: ops, fe, hw, hc => by
    have h1 := step_cache_cap f pub pct fe op (hw op (by simp)) hc
    have h2 := run_cache_cap f pub pct ops (Frontend.step f pub pct fe op) (fun o ho => hw o (by simp [ho])) (by omega)
    simp only [Frontend.run, List.foldl_cons] at h2 ⊢
    omega

theorem run_registered_of_log (f : Frame) (pub : Bool) (pct : Nat) : ∀ (ops : List FOp) (fe : Frontend),
    (fe.registered = true ∨ ops.any FOp.isLog = true) → (Frontend.run f pub pct fe ops).registered = true
  | ops, fe, .inl h => run_registered f pub pct ops fe h
  | [], fe, .inr h => by simp at h
  | op :: ops, fe, .inr h => by
    simp only [Frontend.run, List.foldl_cons]
    cases op with
    | log args dyn =>
      exact run_registered f pub pct ops _ (by simp [Frontend.step, logCall])
    | drain =>
      have h' : ops.any FOp.isLog = true := by simpa [FOp.isLog] using h
      exact run_registered_of_log f pub pct ops _ (.inr h')

theorem growTo_ge : ∀ (fuel cap n : Nat), n ≤ cap * 2 ^ fuel → n ≤ growTo fuel cap n
  | 0, cap, n, h => by simpa [growTo] using h
  | fuel + 1, cap, n, h => by
    simp only [growTo]
    split
    · exact growTo_ge fuel (2 * cap) n (by
        have e : 2 * cap * 2 ^ fuel = cap * 2 ^ (fuel + 1) := by rw [Nat.pow_succ]; ac_rfl
        rw [e]; exact h)
    · omega

end Codec
