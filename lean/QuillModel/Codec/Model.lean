/-!
# Codec — size pass, encode pass, decode, statement framing, size cache, sanitiser (C04, C11)

Executable model of `quill/core/Codec.h`, `quill/std/*.h`, `DeferredFormatCodec.h`, `DirectFormatCodec.h`,
`StringRef.h`, `core/InlinedVector.h`, the framing of `LoggerImpl::log_statement` and
`BackendWorker::sanitize_non_printable_chars`.  No Mathlib; everything is computable (the driver links it).

The model follows the code that exists:
* the size pass *pushes* a `uint32_t` per C string / `char[N]` / direct-format argument / `forward_list`
  (in argument order, depth first) into the per-thread `InlinedVector<uint32_t, N>`; the encode pass *reads*
  `cache[index++]` — a read past `size()` throws in the C++ (`none` here, never a default);
* the arithmetic fast paths (`sizeof(T) * n`) exist only where the header has them (`KindInfo`, extracted);
* a non trivially copyable deferred-format object is placement-copied at the next `alignof`-aligned address
  and always occupies `sizeof + alignof − 1` bytes; the padding bytes keep the old buffer content (`Mem`);
* lengths are truncated to `uint32_t` exactly where the code does.
-/
namespace Codec

abbrev Bytes := List UInt8

/-- `2^32` -/
def U32 : Nat := 4294967296
/-- `std::numeric_limits<uint32_t>::max()` -/
def u32max : Nat := 4294967295
/-- `2^64` -/
def U64 : Nat := 18446744073709551616

/-- little-endian object representation of `n` in `k` bytes (x86-64, the platform of the harness) -/
def leBytes : Nat → Nat → Bytes
  | 0, _ => []
  | k + 1, n => UInt8.ofNat (n % 256) :: leBytes k (n / 256)

def leVal : Bytes → Nat
  | [] => 0
  | b :: bs => b.toNat + 256 * leVal bs

/-- not the terminator -/
def nz (b : UInt8) : Bool := b != 0

/-- `strnlen(m, m.length)`: index of the first NUL, or the length -/
def nulIdx (m : Bytes) : Nat := (m.takeWhile nz).length

/-! ### `InlinedVector<uint32_t, N>` -/

/-- `data` = the `_size` live entries, `cap` = `_capacity` (starts at the inline capacity `N`, doubles, never
    shrinks: `clear()` only resets `_size`), `grown` = ghost list of heap allocations (`new value_type[new_capacity]`). -/
structure Cache where
  data : List Nat
  cap : Nat
  grown : List Nat := []
  deriving Repr, DecidableEq

def Cache.init (N : Nat) : Cache := { data := [], cap := N }

/-- `push_back`: when `_size == _capacity` allocate `2 * _capacity`, copy, free the old heap block -/
def Cache.push (c : Cache) (v : Nat) : Cache :=
  if c.data.length = c.cap then
    { data := c.data ++ [v], cap := 2 * c.cap, grown := c.grown ++ [2 * c.cap] }
  else { c with data := c.data ++ [v] }

def Cache.clear (c : Cache) : Cache := { c with data := [] }

/-- `assign(index, value)` (throws when `index >= _size`; only used right after a push of that index) -/
def Cache.assign (c : Cache) (i v : Nat) : Cache := { c with data := c.data.set i v }

def Cache.pushAll (c : Cache) (xs : List Nat) : Cache := xs.foldl Cache.push c

/-! ### argument values and static shapes -/

/-- what the generic `Codec<T>` branch `is_arithmetic | is_enum | void const*` distinguishes, plus `char`
    (arithmetic, but a *string related* type for the sanitiser) -/
inductive PrimKind | arith | chr | enum | ptr
  deriving DecidableEq, Repr

/-- per container family (extracted from `quill/std/*.h`) -/
structure KindInfo where
  /-- writes the element count as `size_t` first -/
  hasPrefix : Bool
  /-- `compute_encoded_size` multiplies instead of iterating when the element is arithmetic/enum -/
  fastSize : Bool
  /-- `encode` does one `memcpy` when the element is arithmetic/enum -/
  fastEncode : Bool
  /-- `forward_list`: the element count is pushed to the size cache (before the elements) and read back -/
  pushCount : Bool
  /-- map families: the element is `pair<Key,T>` and the fast-path test is made on `Key` and `T` -/
  mapLike : Bool
  /-- map families (finding F16): the codec hands each `pair<const Key,T>` element to `Codec<pair<Key,T>>`, which takes
      `pair<Key,T> const&` — an implicit converting *copy* of the element in the size pass and again in the encode pass -/
  pairTemp : Bool
  deriving DecidableEq, Repr

/-- a one-`memcpy` encode of `pair<Key,T>` elements would copy the padding of `std::pair`; no std/ codec does that -/
def KindInfo.ok (ki : KindInfo) : Bool := !(ki.mapLike && ki.fastEncode)

inductive Shape where
  | prim (k : PrimKind) (w : Nat)
  | cstr
  | carr (n : Nat)
  | str
  | seq (es : Shape)
  | arr (n : Nat) (es : Shape)
  | opt (es : Shape)
  | pair (a b : Shape)
  | tuple (l : List Shape)
  | pod (sz : Nat)
  | nonpod (sz al : Nat)
  | direct
  | sref
  | path
  deriving Repr

inductive Arg where
  /-- arithmetic / enum / `void const*`: the `sizeof` bytes of the object -/
  | prim (k : PrimKind) (bytes : Bytes)
  /-- `char const*` / `char*`: `none` = null pointer; `some m` = the memory behind the pointer (an implicit NUL
      follows `m`; `m` itself may contain earlier NULs — the C string ends at the first one) -/
  | cstr (mem : Option Bytes)
  /-- `char[N]`, `N = mem.length`, with or without a terminator inside -/
  | carr (mem : Bytes)
  /-- `std::string` / `std::string_view`: arbitrary bytes -/
  | str (s : Bytes)
  /-- vector/deque/list/forward_list/set/map/… (`ki.hasPrefix`) and `std::array` / `T[N]` (no prefix) -/
  | seq (ki : KindInfo) (es : Shape) (elems : List Arg)
  /-- empty `std::optional<T>` -/
  | optNone (es : Shape)
  /-- engaged `std::optional<T>` -/
  | optSome (a : Arg)
  | pair (a b : Arg)
  | tuple (elems : List Arg)
  /-- `DeferredFormatCodec<T>`, `T` trivially copyable and default constructible (also `std::chrono` types) -/
  | pod (obj : Bytes)
  /-- `DeferredFormatCodec<T>`, otherwise: `alignof(T)` and the object representation of the copy -/
  | nonpod (al : Nat) (obj : Bytes)
  /-- `DirectFormatCodec<T>`: `text` = what `fmt::formatter<T>` produces for `"{}"` -/
  | direct (text : Bytes)
  /-- `utility::StringRef`: pointer and length, *not* deep-copied (documented) -/
  | sref (ptr : Bytes) (len : Nat)
  /-- `std::filesystem::path` (encoded like `std::string` through a temporary `arg.string()`) -/
  | path (s : Bytes)
  deriving Repr

/-- what the backend hands to fmt -/
inductive Val where
  | prim (bytes : Bytes)
  | text (s : Bytes)
  | seq (l : List Val)
  | optNone
  | optSome (v : Val)
  | pair (a b : Val)
  | tuple (l : List Val)
  | obj (bytes : Bytes)
  | ref (ptr : Bytes) (len : Nat)
  | path (s : Bytes)
  deriving Repr

mutual
def shapeOf : Arg → Shape
  | .prim k b => .prim k b.length
  | .cstr _ => .cstr
  | .carr m => .carr m.length
  | .str _ => .str
  | .seq ki es elems => if ki.hasPrefix then .seq es else .arr elems.length es
  | .optNone es => .opt es
  | .optSome a => .opt (shapeOf a)
  | .pair a b => .pair (shapeOf a) (shapeOf b)
  | .tuple l => .tuple (shapesOf l)
  | .pod obj => .pod obj.length
  | .nonpod al obj => .nonpod obj.length al
  | .direct _ => .direct
  | .sref _ _ => .sref
  | .path _ => .path
def shapesOf : List Arg → List Shape
  | [] => []
  | a :: as => shapeOf a :: shapesOf as
end

/-! decidable equality of shapes (the deriving handler does not do nested inductives) -/
mutual
def Shape.beq : Shape → Shape → Bool
  | .prim k w, .prim k' w' => decide (k = k') && decide (w = w')
  | .cstr, .cstr => true
  | .carr n, .carr n' => decide (n = n')
  | .str, .str => true
  | .seq a, .seq b => Shape.beq a b
  | .arr n a, .arr n' b => decide (n = n') && Shape.beq a b
  | .opt a, .opt b => Shape.beq a b
  | .pair a b, .pair a' b' => Shape.beq a a' && Shape.beq b b'
  | .tuple l, .tuple l' => Shape.beqL l l'
  | .pod s, .pod s' => decide (s = s')
  | .nonpod s a, .nonpod s' a' => decide (s = s') && decide (a = a')
  | .direct, .direct => true
  | .sref, .sref => true
  | .path, .path => true
  | _, _ => false
def Shape.beqL : List Shape → List Shape → Bool
  | [], [] => true
  | a :: as, b :: bs => Shape.beq a b && Shape.beqL as bs
  | _, _ => false
end

/-- the element types for which the std/ codecs take the `sizeof(T) * n` shortcut: `is_arithmetic || is_enum` -/
def PrimKind.fast : PrimKind → Bool
  | .arith => true | .chr => true | .enum => true | .ptr => false

def fastOK (ki : KindInfo) : Shape → Bool
  | .prim k _ => !ki.mapLike && k.fast
  | .pair (.prim k1 _) (.prim k2 _) => ki.mapLike && k1.fast && k2.fast
  | _ => false

/-- `sizeof(T)` (resp. `sizeof(Key) + sizeof(T)` for the map families) used by the shortcut -/
def fastWidth : Shape → Nat
  | .prim _ w => w
  | .pair (.prim _ w1) (.prim _ w2) => w1 + w2
  | _ => 0

/-- the bytes one `memcpy(buffer, arg.data(), sizeof(T) * n)` moves -/
def fastBytes : List Arg → Bytes
  | [] => []
  | .prim _ b :: as => b ++ fastBytes as
  | _ :: as => fastBytes as

/-! ### size pass (`compute_encoded_size`) -/

/-- `safe_strnlen(arg[, N]) + 1`, clamped to `uint32_t` as the code does -/
def cLen (n : Nat) : Nat := min (n + 1) u32max

mutual
def sizePass (c : Cache) : Arg → Nat × Cache
  | .prim _ b => (b.length, c)
  | .cstr none => (cLen 0, c.push (cLen 0))
  | .cstr (some m) => (cLen (nulIdx m), c.push (cLen (nulIdx m)))
  | .carr m => (cLen (nulIdx m), c.push (cLen (nulIdx m)))
  | .str s => (4 + s.length % U32, c)
  | .seq ki es elems =>
    let c0 := if ki.pushCount then c.push 0 else c
    let r := if ki.fastSize && fastOK ki es then (fastWidth es * elems.length, c0) else sizePassL c0 elems
    let c1 := if ki.pushCount then r.2.assign (c0.data.length - 1) (elems.length % U32) else r.2
    ((if ki.hasPrefix then 8 else 0) + r.1, c1)
  | .optNone _ => (1, c)
  | .optSome a => let r := sizePass c a; (1 + r.1, r.2)
  | .pair a b => let r1 := sizePass c a; let r2 := sizePass r1.2 b; (r1.1 + r2.1, r2.2)
  | .tuple l => sizePassL c l
  | .pod obj => (obj.length, c)
  | .nonpod al obj => (obj.length + al - 1, c)
  | .direct text => (4 + text.length % U32, c.push (text.length % U32))
  | .sref _ _ => (16, c)
  | .path s => (4 + s.length % U32, c)
def sizePassL (c : Cache) : List Arg → Nat × Cache
  | [] => (0, c)
  | a :: as => let r1 := sizePass c a; let r2 := sizePassL r1.2 as; (r1.1 + r2.1, r2.2)
end

/-! ### encode pass -/

/-- pre-existing content of the queue buffer (what a byte the encoder skips keeps) -/
abbrev Mem := Nat → UInt8

def memRange (old : Mem) (pos n : Nat) : Bytes := (List.range n).map (fun i => old (pos + i))

/-- bytes `align_pointer` skips at address `pos` (alignment is a power of two in C++; `0 < al` suffices here) -/
def padOf (al pos : Nat) : Nat := (al - pos % al) % al

mutual
/-- `encode old c i pos a = some (bytes, i')`: the bytes of `[pos, pos + bytes.length)` after `Codec<T>::encode`,
    the cache index after it; `none` = the C++ throws (`index out of bounds`) or reads outside the argument -/
def encode (old : Mem) (c : Cache) : Nat → Nat → Arg → Option (Bytes × Nat)
  | i, _, .prim _ b => some (b, i)
  | i, _, .cstr m =>
    match c.data[i]? with
    | none => none
    | some len =>
      let src := m.getD []
      if len = 0 ∨ src.length < len - 1 then none
      else some (src.take (len - 1) ++ [0], i + 1)
  | i, _, .carr m =>
    match c.data[i]? with
    | none => none
    | some len =>
      if m.length < len then
        (if len = m.length + 1 then some (m ++ [0], i + 1) else none)
      else some (m.take len, i + 1)
  | i, _, .str s => some (leBytes 4 (s.length % U32) ++ s.take (s.length % U32), i)
  | i, pos, .seq ki es elems =>
    match (if ki.pushCount then (c.data[i]?).map (fun n => (n, i + 1)) else some (elems.length, i)) with
    | none => none
    | some (n, i0) =>
      let pre := if ki.hasPrefix then leBytes 8 n else []
      if ki.fastEncode && fastOK ki es then some (pre ++ fastBytes elems, i0)
      else
        match encodeL old c i0 (pos + pre.length) elems with
        | none => none
        | some (b, i1) => some (pre ++ b, i1)
  | i, _, .optNone _ => some ([0], i)
  | i, pos, .optSome a =>
    match encode old c i (pos + 1) a with
    | none => none
    | some (b, i1) => some (1 :: b, i1)
  | i, pos, .pair a b =>
    match encode old c i pos a with
    | none => none
    | some (b1, i1) =>
      match encode old c i1 (pos + b1.length) b with
      | none => none
      | some (b2, i2) => some (b1 ++ b2, i2)
  | i, pos, .tuple l => encodeL old c i pos l
  | i, _, .pod obj => some (obj, i)
  | i, pos, .nonpod al obj =>
    let pad := padOf al pos
    some (memRange old pos pad ++ obj ++ memRange old (pos + pad + obj.length) (al - 1 - pad), i)
  | i, _, .direct text =>
    match c.data[i]? with
    | none => none
    | some len =>
      if text.length < len then none
      else some (leBytes 4 len ++ text.take len, i + 1)
  | i, _, .sref ptr len => some (ptr ++ leBytes 8 len, i)
  | i, _, .path s => some (leBytes 4 (s.length % U32) ++ s.take (s.length % U32), i)
def encodeL (old : Mem) (c : Cache) : Nat → Nat → List Arg → Option (Bytes × Nat)
  | i, _, [] => some ([], i)
  | i, pos, a :: as =>
    match encode old c i pos a with
    | none => none
    | some (b1, i1) =>
      match encodeL old c i1 (pos + b1.length) as with
      | none => none
      | some (b2, i2) => some (b1 ++ b2, i2)
end

/-! ### decode (`decode_arg`), by shape, from the bytes alone -/

def decodeN (f : Nat → Bytes → Option (Val × Bytes)) : Nat → Nat → Bytes → Option (List Val × Bytes)
  | 0, _, bs => some ([], bs)
  | n + 1, pos, bs =>
    match f pos bs with
    | none => none
    | some (v, r) =>
      match decodeN f n (pos + (bs.length - r.length)) r with
      | none => none
      | some (vs, r') => some (v :: vs, r')

/-- a NUL-terminated string at the front of `bs` (`safe_strnlen + 1` bytes); `none` = no terminator in sight -/
def decodeCStr (bs : Bytes) : Option (Val × Bytes) :=
  if nulIdx bs < bs.length then some (.text (bs.take (nulIdx bs)), bs.drop (nulIdx bs + 1)) else none

/-- `uint32_t` length, then that many bytes -/
def decodeLenPrefixed (bs : Bytes) : Option (Bytes × Bytes) :=
  if bs.length < 4 then none
  else
    let len := leVal (bs.take 4)
    let r := bs.drop 4
    if r.length < len then none else some (r.take len, r.drop len)

mutual
def decode : Shape → Nat → Bytes → Option (Val × Bytes)
  | .prim _ w, _, bs => if bs.length < w then none else some (.prim (bs.take w), bs.drop w)
  | .cstr, _, bs => decodeCStr bs
  | .carr _, _, bs => decodeCStr bs
  | .str, _, bs => (decodeLenPrefixed bs).map (fun p => (.text p.1, p.2))
  | .seq es, pos, bs =>
    if bs.length < 8 then none
    else
      match decodeN (decode es) (leVal (bs.take 8)) (pos + 8) (bs.drop 8) with
      | none => none
      | some (vs, r) => some (.seq vs, r)
  | .arr n es, pos, bs =>
    match decodeN (decode es) n pos bs with
    | none => none
    | some (vs, r) => some (.seq vs, r)
  | .opt es, pos, bs =>
    match bs with
    | [] => none
    | b :: r =>
      if b = 0 then some (.optNone, r)
      else
        match decode es (pos + 1) r with
        | none => none
        | some (v, r') => some (.optSome v, r')
  | .pair a b, pos, bs =>
    match decode a pos bs with
    | none => none
    | some (va, r) =>
      match decode b (pos + (bs.length - r.length)) r with
      | none => none
      | some (vb, r') => some (.pair va vb, r')
  | .tuple l, pos, bs =>
    match decodeL l pos bs with
    | none => none
    | some (vs, r) => some (.tuple vs, r)
  | .pod sz, _, bs => if bs.length < sz then none else some (.obj (bs.take sz), bs.drop sz)
  | .nonpod sz al, pos, bs =>
    if bs.length < sz + al - 1 then none
    else some (.obj ((bs.drop (padOf al pos)).take sz), bs.drop (sz + al - 1))
  | .direct, _, bs => (decodeLenPrefixed bs).map (fun p => (.text p.1, p.2))
  | .sref, _, bs =>
    if bs.length < 16 then none
    else some (.ref (bs.take 8) (leVal ((bs.drop 8).take 8)), bs.drop 16)
  | .path, _, bs => (decodeLenPrefixed bs).map (fun p => (.path p.1, p.2))
def decodeL : List Shape → Nat → Bytes → Option (List Val × Bytes)
  | [], _, bs => some ([], bs)
  | s :: ss, pos, bs =>
    match decode s pos bs with
    | none => none
    | some (v, r) =>
      match decodeL ss (pos + (bs.length - r.length)) r with
      | none => none
      | some (vs, r') => some (v :: vs, r')
end

/-! ### specification side: the documented value, the pushed lengths, the encoding as a pure function -/

mutual
/-- the value the backend must see: C string cut at the first NUL (null pointer ↦ empty), `char[N]` cut at NUL
    or `N`, `std::string` all bytes -/
def view : Arg → Val
  | .prim _ b => .prim b
  | .cstr none => .text []
  | .cstr (some m) => .text (m.takeWhile nz)
  | .carr m => .text (m.takeWhile nz)
  | .str s => .text s
  | .seq _ _ elems => .seq (viewL elems)
  | .optNone _ => .optNone
  | .optSome a => .optSome (view a)
  | .pair a b => .pair (view a) (view b)
  | .tuple l => .tuple (viewL l)
  | .pod obj => .obj obj
  | .nonpod _ obj => .obj obj
  | .direct text => .text text
  | .sref ptr len => .ref ptr len
  | .path s => .path s
def viewL : List Arg → List Val
  | [] => []
  | a :: as => view a :: viewL as
end

mutual
/-- the lengths the size pass caches for `a`, in push order -/
def lens : Arg → List Nat
  | .cstr none => [cLen 0]
  | .cstr (some m) => [cLen (nulIdx m)]
  | .carr m => [cLen (nulIdx m)]
  | .seq ki es elems =>
    (if ki.pushCount then [elems.length % U32] else []) ++
      (if ki.fastSize && fastOK ki es then [] else lensL elems)
  | .optSome a => lens a
  | .pair a b => lens a ++ lens b
  | .tuple l => lensL l
  | .direct text => [text.length % U32]
  | _ => []
def lensL : List Arg → List Nat
  | [] => []
  | a :: as => lens a ++ lensL as
end

mutual
/-- the encoding as a function of the value (and, for aligned objects, of the address) -/
def enc (old : Mem) : Nat → Arg → Bytes
  | _, .prim _ b => b
  | _, .cstr none => [0]
  | _, .cstr (some m) => m.takeWhile nz ++ [0]
  | _, .carr m => m.takeWhile nz ++ [0]
  | _, .str s => leBytes 4 s.length ++ s
  | pos, .seq ki _ elems =>
    (if ki.hasPrefix then leBytes 8 elems.length else []) ++
      encL old (pos + (if ki.hasPrefix then 8 else 0)) elems
  | _, .optNone _ => [0]
  | pos, .optSome a => 1 :: enc old (pos + 1) a
  | pos, .pair a b => enc old pos a ++ enc old (pos + (enc old pos a).length) b
  | pos, .tuple l => encL old pos l
  | _, .pod obj => obj
  | pos, .nonpod al obj =>
    memRange old pos (padOf al pos) ++ obj ++
      memRange old (pos + padOf al pos + obj.length) (al - 1 - padOf al pos)
  | _, .direct text => leBytes 4 text.length ++ text
  | _, .sref ptr len => ptr ++ leBytes 8 len
  | _, .path s => leBytes 4 s.length ++ s
def encL (old : Mem) : Nat → List Arg → Bytes
  | _, [] => []
  | pos, a :: as => enc old pos a ++ encL old (pos + (enc old pos a).length) as
end

mutual
/-- well-formed value: lengths representable where the code truncates, containers homogeneous -/
def wf : Arg → Bool
  | .prim _ _ => true
  | .cstr none => true
  | .cstr (some m) => decide (nulIdx m + 1 < u32max)
  | .carr m => decide (nulIdx m + 1 < u32max)
  | .str s => decide (s.length < U32)
  | .seq ki es elems => ki.ok && decide (elems.length < U32) && homog es elems
  | .optNone _ => true
  | .optSome a => wf a
  | .pair a b => wf a && wf b
  | .tuple l => wfL l
  | .pod _ => true
  | .nonpod al _ => decide (0 < al)
  | .direct text => decide (text.length < U32)
  | .sref ptr len => decide (ptr.length = 8) && decide (len < U64)
  | .path s => decide (s.length < U32)
def wfL : List Arg → Bool
  | [] => true
  | a :: as => wf a && wfL as
/-- every element well-formed and of the container's element type -/
def homog (es : Shape) : List Arg → Bool
  | [] => true
  | a :: as => Shape.beq (shapeOf a) es && wf a && homog es as
end

/-! ### statement framing (`LoggerImpl::log_statement`, `_populate_transit_event_from_frontend_queue`) -/

/-- `compute_encoded_size_and_cache_string_lengths` clears the cache unless *every* argument is arithmetic, enum,
    `void const*`, `std::string` or `std::string_view` -/
def needsClear : Arg → Bool
  | .prim _ _ => false
  | .str _ => false
  | _ => true

def sizeStatement (c : Cache) (args : List Arg) : Nat × Cache :=
  sizePassL (if args.any needsClear then c.clear else c) args

/-- layout constants of the record header and the trailing dynamic level (extracted) -/
structure Frame where
  tsBytes : Nat
  ptrBytes : Nat
  nPtrs : Nat
  lvlBytes : Nat
  deriving Repr, DecidableEq

def Frame.header (f : Frame) : Nat := f.tsBytes + f.ptrBytes * f.nPtrs

/-- `total_size` passed to `prepare_write` and to `finish_and_commit_write` -/
def reserved (f : Frame) (c : Cache) (args : List Arg) (dyn : Bool) : Nat :=
  f.header + (sizeStatement c args).1 + (if dyn then f.lvlBytes else 0)

/-- the record as written: header bytes (timestamp + three pointers, opaque here), arguments, optional level.
    `pos` = address of the record start. -/
def writeRecord (old : Mem) (c : Cache) (pos : Nat) (hdr : Bytes) (args : List Arg) (lvl : Bytes) : Option Bytes :=
  match encodeL old (sizeStatement c args).2 0 (pos + hdr.length) args with
  | none => none
  | some (b, _) => some (hdr ++ b ++ lvl)

/-- the backend side: header, arguments through the stored decoder (= `decodeL` at the statement's shapes),
    then `lvlLen` bytes of dynamic level -/
def readRecord (f : Frame) (shapes : List Shape) (pos : Nat) (dyn : Bool) (bs : Bytes) :
    Option (Bytes × List Val × Bytes × Bytes) :=
  if bs.length < f.header then none
  else
    match decodeL shapes (pos + f.header) (bs.drop f.header) with
    | none => none
    | some (vs, r) =>
      let k := if dyn then f.lvlBytes else 0
      if r.length < k then none else some (bs.take f.header, vs, r.take k, r.drop k)

/-! ### histories of statements on one thread's size cache: logged and dropped statements -/

/-- what happened to an earlier statement of the thread between its two passes -/
inductive StmtOp where
  /-- size pass, `prepare_write` granted, encode pass -/
  | logged (args : List Arg)
  /-- size pass only: `prepare_write` refused (`BoundedDropping` / `UnboundedDropping` queue full: the statement is
      dropped and `log_statement` returns `false`) or `_handle_full_queue` threw (record over
      `unbounded_queue_max_capacity`) — the encode pass never runs -/
  | dropped (args : List Arg)
  deriving Repr

def StmtOp.args : StmtOp → List Arg
  | .logged a => a
  | .dropped a => a

/-- the size pass with the `clear()` at its start (`clearAtStart = true`: the code, what the extraction looks for) or
    without it (`false`: the alternative placement "clear after the encode pass", kept only to show what goes wrong) -/
def sizeStatementAt (clearAtStart : Bool) (c : Cache) (args : List Arg) : Nat × Cache :=
  sizePassL (if clearAtStart && args.any needsClear then c.clear else c) args

/-- the size cache after one earlier statement. With the `clear()` at the start of the size pass the encode pass
    (which takes the cache by `const&`) changes nothing, so a dropped statement and a logged one leave the same cache;
    with the `clear()` after the encode pass a dropped statement leaves its lengths behind. -/
def StmtOp.apply (clearAtStart : Bool) (c : Cache) : StmtOp → Cache
  | .logged args =>
    let c1 := (sizeStatementAt clearAtStart c args).2
    if !clearAtStart && args.any needsClear then c1.clear else c1
  | .dropped args => (sizeStatementAt clearAtStart c args).2

/-- the size cache a thread's history of statements leaves behind -/
def cacheAfter (clearAtStart : Bool) (c : Cache) (ops : List StmtOp) : Cache :=
  ops.foldl (StmtOp.apply clearAtStart) c

/-- bytes reserved and bytes the encode pass writes (`none` = it faults) for a statement issued after `ops` -/
def passesAfter (clearAtStart : Bool) (old : Mem) (c : Cache) (ops : List StmtOp) (pos : Nat) (args : List Arg) :
    Nat × Option Bytes :=
  let r := sizeStatementAt clearAtStart (cacheAfter clearAtStart c ops) args
  (r.1, (encodeL old r.2 0 pos args).map (·.1))

/-! ### sanitiser -/

/-- `check_printable_char` of `BackendOptions`: `(c >= lo && c <= hi) || c == extra…` (on `char`; for the default
    bounds `< 0x80` the signed comparison and this unsigned one agree) -/
structure Printable where
  lo : Nat
  hi : Nat
  extra : List Nat
  deriving Repr, DecidableEq

def Printable.ok (p : Printable) (b : UInt8) : Bool :=
  (decide (p.lo ≤ b.toNat) && decide (b.toNat ≤ p.hi)) || p.extra.contains b.toNat

/-- `"0123456789ABCDEF"[n]` -/
def hexUpper (n : Nat) : UInt8 := if n < 10 then UInt8.ofNat (48 + n) else UInt8.ofNat (55 + n)

/-- `\xHH` -/
def escape (b : UInt8) : Bytes := [92, 120, hexUpper (b.toNat / 16), hexUpper (b.toNat % 16)]

/-- for ANY `check_printable_char` (`BackendOptions` takes a `std::function<bool(char)>`; the default is one instance) -/
def sanitizeByteBy (ok : UInt8 → Bool) (b : UInt8) : Bytes := if ok b then [b] else escape b

/-- `sanitize_non_printable_chars`: a detection loop that asks the predicate about EVERY byte; only when some byte
    fails it the message is rebuilt, asking the predicate about every byte again -/
def sanitizeBy (ok : UInt8 → Bool) (s : Bytes) : Bytes :=
  if s.all ok then s else s.flatMap (sanitizeByteBy ok)

def sanitizeByte (p : Printable) (b : UInt8) : Bytes := sanitizeByteBy p.ok b

/-- the sanitiser under the default predicate shape (`lo`/`hi`/`extra`, extracted) -/
def sanitize (p : Printable) (s : Bytes) : Bytes := sanitizeBy p.ok s

/-- the variant whose DETECTION loop skips the predicate for bytes in `' '..'~'` (the rewrite loop unchanged) — kept
    only to show what goes wrong with a predicate stricter than the default inside printable ASCII -/
def sanitizeDetectShortcut (ok : UInt8 → Bool) (s : Bytes) : Bytes :=
  if s.all (fun b => (decide (32 ≤ b.toNat) && decide (b.toNat ≤ 126)) || ok b) then s else s.flatMap (sanitizeByteBy ok)

/-- `DynamicFormatArgStore::has_string_related_type` by shape (fmt's `char`, string, C string and custom types) -/
def stringRelated : Shape → Bool
  | .prim k _ => k == .chr
  | _ => true

/-- the sink text of a statement given the text fmt produced from the decoded values -/
def finalText (p : Option Printable) (shapes : List Shape) (formatted : Bytes) : Bytes :=
  match p with
  | some q => if shapes.any stringRelated then sanitize q formatted else formatted
  | none => formatted

/-! ### the backend's argument store: one per backend, shared by all statements of all threads and loggers -/

/-- `DynamicFormatArgStore _format_args_store`: the decoded values handed to fmt and the
    `has_string_related_type` flag that gates the sanitiser -/
structure Store where
  vals : List Val
  stringRelated : Bool
  deriving Repr

def Store.empty : Store := { vals := [], stringRelated := false }

/-- `detail::decode_and_store_args<Args...>(buffer, store)`, the decoder whose address is in every record header.
    `clearFirst = true` (the code; what the extraction looks for): `store.clear()` unconditionally, then the arguments
    are decoded into it — the result does not depend on `prev`. `clearFirst = false`: the variant that skips the reset
    (and the decode) when the statement has no arguments — kept only to show what goes wrong. -/
def decodeStatementAt (clearFirst : Bool) (shapes : List Shape) (pos : Nat) (bs : Bytes) (prev : Store) :
    Option (Store × Bytes) :=
  if !clearFirst && shapes.isEmpty then some (prev, bs)
  else
    match decodeL shapes pos bs with
    | none => none
    | some (vs, r) => some ({ vals := vs, stringRelated := shapes.any stringRelated }, r)

def decodeStatement : List Shape → Nat → Bytes → Store → Option (Store × Bytes) := decodeStatementAt true

/-- the store the backend is left with after decoding a sequence of records (any threads, any loggers); a record that
    cannot be decoded leaves the store as it was -/
def storeAfter (clearFirst : Bool) (s0 : Store) (hist : List (List Shape × Nat × Bytes)) : Store :=
  hist.foldl (fun st r => ((decodeStatementAt clearFirst r.1 r.2.1 r.2.2 st).map (·.1)).getD st) s0

/-- `_populate_formatted_log_message`: the text handed to the sinks and the number of error-notifier reports.
    `fmt` = libfmt on the run-time format string and the stored values (`none` = it throws, e.g. "argument not found");
    on success the text is sanitised iff the store holds a string related argument; on failure the text is the
    "[Could not format log statement …]" message `err fmtStr` and it is reported once. -/
def storeText (p : Option Printable) (fmt : Bytes → List Val → Option Bytes) (err : Bytes → Bytes) (fmtStr : Bytes)
    (st : Store) : Bytes × Nat :=
  match fmt fmtStr st.vals with
  | some t =>
    ((match p with
      | some q => if st.stringRelated then sanitize q t else t
      | none => t), 0)
  | none => (err fmtStr, 1)

/-! ### frontend events of one log call (C11) -/

inductive Event
  /-- `get_local_thread_context`: the `ThreadContext` and its queue are created on the first call of a thread -/
  | ctxCreate
  /-- `InlinedVector::push_back` with `_size == _capacity` -/
  | cacheGrow (newCap : Nat)
  /-- `UnboundedSPSCQueue::_handle_full_queue` allocates the next node -/
  | queueGrow (newCap : Nat)
  /-- `fs::path::string()` temporary (twice: size pass and encode pass) — documented exclusion -/
  | tempString
  /-- copy constructor of a non trivially copyable deferred-format type — user code, documented exclusion -/
  | userCopy
  /-- a `fmt::formatter` runs on the calling thread (direct-format types only) -/
  | formatCall
  /-- converting copy of a non trivially copyable `pair<const Key,T>` map element (allocates whenever `Key`/`T` do) -/
  | pairCopy
  deriving Repr, DecidableEq

/-- copying an object of this type runs no user code and cannot allocate (`Shape.str` stands for `std::string` as
    well as `std::string_view`, so it counts as not trivially copyable — an over-approximation for the latter) -/
def trivCopy : Shape → Bool
  | .prim _ _ => true
  | .cstr => true
  | .carr _ => true
  | .pair a b => trivCopy a && trivCopy b
  | .pod _ => true
  | .sref => true
  | _ => false

/-- does the codec of this container copy its elements into temporaries that may allocate? -/
def copiesPairs (ki : KindInfo) (es : Shape) : Bool := ki.pairTemp && !trivCopy es

mutual
/-- user-visible work the two passes do on the caller besides copying bytes, in order -/
def argEvents : Arg → List Event
  | .seq ki es elems =>
    (if copiesPairs ki es then List.replicate (2 * elems.length) Event.pairCopy else []) ++ argEventsL elems
  | .optSome a => argEvents a
  | .pair a b => argEvents a ++ argEvents b
  | .tuple l => argEventsL l
  | .nonpod _ _ => [.userCopy]
  | .direct _ => [.formatCall, .formatCall]
  | .path _ => [.tempString, .tempString]
  | _ => []
def argEventsL : List Arg → List Event
  | [] => []
  | a :: as => argEvents a ++ argEventsL as
end

/-- the producer's view of its queue -/
structure Queue where
  /-- capacity of the current node -/
  cap : Nat
  /-- bytes the producer must assume in use: `_writer_pos − _atomic_reader_pos` (what `prepare_write` sees after its
      reload of the reader position the consumer last published) -/
  used : Nat
  /-- `unbounded_queue_max_capacity`; `0` = bounded queue (never grows) -/
  maxCap : Nat
  deriving Repr, DecidableEq

/-- `_handle_full_queue`: double until it fits -/
def growTo (fuel cap n : Nat) : Nat :=
  match fuel with
  | 0 => cap
  | fuel + 1 => if cap < n then growTo fuel (2 * cap) n else cap

def Queue.fits (q : Queue) (n : Nat) : Bool := decide (n ≤ q.cap - q.used)

/-- events of `prepare_write(n)` and the queue afterwards (`none` = refused: blocked or dropped) -/
def Queue.reserve (q : Queue) (n : Nat) : List Event × Option Queue :=
  if q.fits n then ([], some { q with used := q.used + n })
  else
    let nc := growTo 64 (2 * q.cap) n
    if nc ≤ q.maxCap then ([.queueGrow nc], some { q with cap := nc, used := n })
    else ([], none)

structure Frontend where
  registered : Bool
  cache : Cache
  queue : Queue
  deriving Repr

/-- one `log_statement` on the calling thread: events in program order, frontend state afterwards -/
def logCall (f : Frame) (fe : Frontend) (args : List Arg) (dyn : Bool) : List Event × Frontend :=
  let e0 : List Event := if fe.registered then [] else [.ctxCreate]
  let sz := sizeStatement fe.cache args
  let eCache := (sz.2.grown.drop fe.cache.grown.length).map Event.cacheGrow
  let total := f.header + sz.1 + (if dyn then f.lvlBytes else 0)
  let rq := fe.queue.reserve total
  (e0 ++ eCache ++ rq.1 ++ argEventsL args,
   { registered := true, cache := sz.2, queue := rq.2.getD fe.queue })

/-! ### the thread's queue between log calls: backend passes (C11) -/

/-- `_bytes_per_batch`: the consumer publishes its position after this many consumed bytes -/
def batchBytes (cap pct : Nat) : Nat := cap * pct / 100

/-- one backend pass over the thread's queue that consumes *everything* the producer committed
    (`_read_and_decode_frontend_queue` until `prepare_read` returns null) followed by its single `commit_read()`.
    `Queue.used` counts from the reader position the consumer last *published* (what the producer sees after its
    reload in `prepare_write`), so the pass frees the bytes only if `commit_read` publishes: always when
    `publishOnDrain` (the clause `_reader_pos == _writer_pos_cache` of `commit_read`), otherwise only when the
    unpublished bytes reach the batch threshold. -/
def Queue.drain (publishOnDrain : Bool) (pct : Nat) (q : Queue) : Queue :=
  if publishOnDrain || decide (batchBytes q.cap pct ≤ q.used) then { q with used := 0 } else q

/-- what happens on one thread between two observations: a log call, or a backend pass that drains its queue -/
inductive FOp where
  | log (args : List Arg) (dyn : Bool)
  | drain
  deriving Repr

def Frontend.step (f : Frame) (publishOnDrain : Bool) (pct : Nat) (fe : Frontend) : FOp → Frontend
  | .log args dyn => (logCall f fe args dyn).2
  | .drain => { fe with queue := fe.queue.drain publishOnDrain pct }

def Frontend.run (f : Frame) (publishOnDrain : Bool) (pct : Nat) (fe : Frontend) (ops : List FOp) : Frontend :=
  ops.foldl (Frontend.step f publishOnDrain pct) fe

/-- the documented budget of the size cache (C11: "up to twelve variable-length C-string arguments per statement"):
    besides C strings, `char[N]` and direct-format arguments only `std::forward_list` takes a slot (its element count,
    which it cannot ask the container for). `specKind` is the container table the budget is stated for; the obligation
    `alloc_count_slots` shows that it is the extracted one. -/
def specPushCount (name : String) : Bool := name == "forward_list"

def specKind (name : String) (ki : KindInfo) : KindInfo := { ki with pushCount := specPushCount name }

end Codec
