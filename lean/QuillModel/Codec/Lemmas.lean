import QuillModel.Codec.Basic
/-! The three structural inductions behind C04: size pass = spec, encode pass = spec on the cached window,
    decode ∘ encode = documented view. -/
namespace Codec

/-! ### shape equality -/
mutual
theorem Shape.beq_eq : ∀ (a b : Shape), Shape.beq a b = true → a = b
  | .prim k w, b => by cases b <;> simp [Shape.beq]
  | .cstr, b => by cases b <;> simp [Shape.beq]
  | .carr n, b => by cases b <;> simp [Shape.beq]
  | .str, b => by cases b <;> simp [Shape.beq]
  | .seq a, b => by
    cases b <;> simp [Shape.beq]
    exact Shape.beq_eq a _
  | .arr n a, b => by
    cases b <;> simp [Shape.beq]
    intro h1 h2; exact ⟨h1, Shape.beq_eq a _ h2⟩
  | .opt a, b => by
    cases b <;> simp [Shape.beq]
    exact Shape.beq_eq a _
  | .pair a a', b => by
    cases b <;> simp [Shape.beq]
    intro h1 h2; exact ⟨Shape.beq_eq a _ h1, Shape.beq_eq a' _ h2⟩
  | .tuple l, b => by
    cases b <;> simp [Shape.beq]
    exact Shape.beqL_eq l _
  | .pod s, b => by cases b <;> simp [Shape.beq]
  | .nonpod s a, b => by cases b <;> simp [Shape.beq]
  | .direct, b => by cases b <;> simp [Shape.beq]
  | .sref, b => by cases b <;> simp [Shape.beq]
  | .path, b => by cases b <;> simp [Shape.beq]
theorem Shape.beqL_eq : ∀ (a b : List Shape), Shape.beqL a b = true → a = b
  | [], b => by cases b <;> simp [Shape.beqL]
  | x :: xs, b => by
    cases b <;> simp [Shape.beqL]
    intro h1 h2; exact ⟨Shape.beq_eq x _ h1, Shape.beqL_eq xs _ h2⟩
end

mutual
theorem Shape.beq_refl : ∀ (a : Shape), Shape.beq a a = true
  | .prim k w => by simp [Shape.beq]
  | .cstr => by simp [Shape.beq]
  | .carr n => by simp [Shape.beq]
  | .str => by simp [Shape.beq]
  | .seq a => by simp [Shape.beq, Shape.beq_refl a]
  | .arr n a => by simp [Shape.beq, Shape.beq_refl a]
  | .opt a => by simp [Shape.beq, Shape.beq_refl a]
  | .pair a b => by simp [Shape.beq, Shape.beq_refl a, Shape.beq_refl b]
  | .tuple l => by simp [Shape.beq, Shape.beqL_refl l]
  | .pod s => by simp [Shape.beq]
  | .nonpod s a => by simp [Shape.beq]
  | .direct => by simp [Shape.beq]
  | .sref => by simp [Shape.beq]
  | .path => by simp [Shape.beq]
theorem Shape.beqL_refl : ∀ (a : List Shape), Shape.beqL a a = true
  | [] => by simp [Shape.beqL]
  | x :: xs => by simp [Shape.beqL, Shape.beq_refl x, Shape.beqL_refl xs]
end

instance : DecidableEq Shape := fun a b =>
  if h : Shape.beq a b = true then isTrue (Shape.beq_eq a b h)
  else isFalse (fun e => h (e ▸ Shape.beq_refl a))

/-! ### homogeneous element lists -/

theorem homog_cons {es : Shape} {a : Arg} {as : List Arg} (h : homog es (a :: as) = true) :
    shapeOf a = es ∧ wf a = true ∧ homog es as = true := by
  simp only [homog, Bool.and_eq_true] at h
  exact ⟨Shape.beq_eq _ _ h.1.1, h.1.2, h.2⟩

theorem homog_wfL {es : Shape} : ∀ {as : List Arg}, homog es as = true → wfL as = true
  | [], _ => by simp [wfL]
  | a :: as, h => by
    obtain ⟨_, h2, h3⟩ := homog_cons h
    simp [wfL, h2, homog_wfL h3]

theorem shapeOf_prim_inv {a : Arg} {k : PrimKind} {w : Nat} (h : shapeOf a = .prim k w) :
    ∃ b, a = .prim k b ∧ b.length = w := by
  cases a <;> simp [shapeOf] at h
  case prim k' b => exact ⟨b, by simp [h.1], h.2⟩
  case seq ki es elems => split at h <;> simp at h

theorem shapeOf_pair_inv {a : Arg} {s1 s2 : Shape} (h : shapeOf a = .pair s1 s2) :
    ∃ x y, a = .pair x y ∧ shapeOf x = s1 ∧ shapeOf y = s2 := by
  cases a <;> simp [shapeOf] at h
  case pair x y => exact ⟨x, y, rfl, h.1, h.2⟩
  case seq ki es elems => split at h <;> simp at h

/-- an element type that qualifies for the shortcut: every element is a plain object (or a pair of two) -/
inductive FastElem : Shape → Arg → Prop
  | prim (k : PrimKind) (b : Bytes) : FastElem (.prim k b.length) (.prim k b)
  | pair (k1 k2 : PrimKind) (b1 b2 : Bytes) :
      FastElem (.pair (.prim k1 b1.length) (.prim k2 b2.length)) (.pair (.prim k1 b1) (.prim k2 b2))

theorem fastElem_of {ki : KindInfo} {es : Shape} {a : Arg} (hf : fastOK ki es = true) (hs : shapeOf a = es) :
    FastElem es a := by
  cases es <;> simp [fastOK] at hf
  case prim k w =>
    obtain ⟨b, rfl, rfl⟩ := shapeOf_prim_inv hs
    exact .prim k b
  case pair s1 s2 =>
    cases s1 <;> cases s2 <;> simp at hf
    case prim.prim k1 w1 k2 w2 =>
      obtain ⟨x, y, rfl, hx, hy⟩ := shapeOf_pair_inv hs
      obtain ⟨b1, rfl, rfl⟩ := shapeOf_prim_inv hx
      obtain ⟨b2, rfl, rfl⟩ := shapeOf_prim_inv hy
      exact .pair k1 k2 b1 b2

theorem fast_lensL {ki : KindInfo} {es : Shape} (hf : fastOK ki es = true) :
    ∀ {as : List Arg}, homog es as = true → lensL as = []
  | [], _ => by simp [lensL]
  | a :: as, h => by
    obtain ⟨h1, _, h3⟩ := homog_cons h
    have := fastElem_of hf h1
    cases this <;> simp [lensL, lens, fast_lensL hf h3]

theorem fast_width {ki : KindInfo} {es : Shape} (hf : fastOK ki es = true) (old : Mem) :
    ∀ {as : List Arg} (pos : Nat), homog es as = true → fastWidth es * as.length = (encL old pos as).length
  | [], _, _ => by simp [encL]
  | a :: as, pos, h => by
    obtain ⟨h1, _, h3⟩ := homog_cons h
    have ih := fun p => fast_width hf old (as := as) p h3
    have := fastElem_of hf h1
    cases this
    · simp only [encL, enc, List.length_cons, List.length_append, ← ih, fastWidth, Nat.mul_succ]; omega
    · simp only [encL, enc, List.length_cons, List.length_append, ← ih, fastWidth, Nat.mul_succ]; omega

theorem fast_bytes {ki : KindInfo} {es : Shape} (hf : fastOK ki es = true) (hm : ki.mapLike = false) (old : Mem) :
    ∀ {as : List Arg} (pos : Nat), homog es as = true → fastBytes as = encL old pos as
  | [], _, _ => by simp [encL, fastBytes]
  | a :: as, pos, h => by
    obtain ⟨h1, _, h3⟩ := homog_cons h
    have ih := fun p => fast_bytes hf hm old (as := as) p h3
    have := fastElem_of hf h1
    cases this
    · simp only [encL, enc, fastBytes, ← ih]
    · simp [fastOK, hm] at hf


/-! ### size pass = specification -/


theorem cLen_of_lt {n : Nat} (h : n + 1 < u32max) : cLen n = n + 1 := by
  unfold cLen; omega

theorem nulIdx_eq_length (m : Bytes) : (m.takeWhile nz).length = nulIdx m := rfl

mutual
theorem sizePass_spec (old : Mem) : ∀ (a : Arg) (c : Cache) (pos : Nat), wf a = true →
    sizePass c a = ((enc old pos a).length, c.pushAll (lens a))
  | .prim k b, c, pos, _ => by simp [sizePass, enc, lens, pushAll_nil]
  | .cstr none, c, pos, _ => by simp [sizePass, enc, lens, pushAll_singleton, cLen, u32max]
  | .cstr (some m), c, pos, h => by
    simp only [wf, decide_eq_true_eq] at h
    simp [sizePass, enc, lens, pushAll_singleton, cLen_of_lt h, nulIdx_eq_length]
  | .carr m, c, pos, h => by
    simp only [wf, decide_eq_true_eq] at h
    simp [sizePass, enc, lens, pushAll_singleton, cLen_of_lt h, nulIdx_eq_length]
  | .str s, c, pos, h => by
    simp only [wf, decide_eq_true_eq] at h
    simp [sizePass, enc, lens, pushAll_nil, Nat.mod_eq_of_lt h, leBytes_length]
  | .seq ki es elems, c, pos, h => by
    simp only [wf, Bool.and_eq_true, decide_eq_true_eq] at h
    obtain ⟨⟨_, hn⟩, hh⟩ := h
    have ih := fun c0 p => sizePassL_spec old elems c0 p (homog_wfL hh)
    have hr : ∀ c0 p, (if (ki.fastSize && fastOK ki es) = true then (fastWidth es * elems.length, c0) else sizePassL c0 elems)
        = ((encL old p elems).length, c0.pushAll (if (ki.fastSize && fastOK ki es) = true then [] else lensL elems)) := by
      intro c0 p
      split
      · rename_i hf
        simp only [Bool.and_eq_true] at hf
        rw [fast_width hf.2 old p hh, pushAll_nil]
      · exact ih c0 p
    simp only [sizePass, enc, lens, List.length_append]
    rw [hr _ (pos + (if ki.hasPrefix = true then 8 else 0))]
    cases hpc : ki.pushCount <;> cases hp : ki.hasPrefix <;>
      simp [leBytes_length, pushAll_assign, pushAll_cons]
  | .optNone _, c, pos, _ => by simp [sizePass, enc, lens, pushAll_nil]
  | .optSome a, c, pos, h => by
    simp only [wf] at h
    simp [sizePass, enc, lens, sizePass_spec old a c (pos + 1) h]; omega
  | .pair a b, c, pos, h => by
    simp only [wf, Bool.and_eq_true] at h
    simp [sizePass, enc, lens, sizePass_spec old a c pos h.1,
      sizePass_spec old b _ (pos + (enc old pos a).length) h.2, pushAll_append]
  | .tuple l, c, pos, h => by
    simp only [wf] at h
    simp [sizePass, enc, lens, sizePassL_spec old l c pos h]
  | .pod obj, c, pos, _ => by simp [sizePass, enc, lens, pushAll_nil]
  | .nonpod al obj, c, pos, h => by
    simp only [wf, decide_eq_true_eq] at h
    have : padOf al pos < al := by unfold padOf; exact Nat.mod_lt _ h
    simp [sizePass, enc, lens, pushAll_nil, memRange]; omega
  | .direct text, c, pos, h => by
    simp only [wf, decide_eq_true_eq] at h
    simp [sizePass, enc, lens, pushAll_singleton, Nat.mod_eq_of_lt h, leBytes_length]
  | .sref ptr len, c, pos, h => by
    simp only [wf, Bool.and_eq_true, decide_eq_true_eq] at h
    simp [sizePass, enc, lens, pushAll_nil, leBytes_length, h.1]
  | .path s, c, pos, h => by
    simp only [wf, decide_eq_true_eq] at h
    simp [sizePass, enc, lens, pushAll_nil, Nat.mod_eq_of_lt h, leBytes_length]
theorem sizePassL_spec (old : Mem) : ∀ (as : List Arg) (c : Cache) (pos : Nat), wfL as = true →
    sizePassL c as = ((encL old pos as).length, c.pushAll (lensL as))
  | [], c, pos, _ => by simp [sizePassL, encL, lensL, pushAll_nil]
  | a :: as, c, pos, h => by
    simp only [wfL, Bool.and_eq_true] at h
    simp [sizePassL, encL, lensL, sizePass_spec old a c pos h.1,
      sizePassL_spec old as _ (pos + (enc old pos a).length) h.2, pushAll_append]
end

/-! ### encode pass = specification, on the window the size pass left -/


theorem take_nulIdx_succ : ∀ (m : Bytes), nulIdx m < m.length → m.take (nulIdx m + 1) = m.takeWhile nz ++ [0]
  | [], h => by simp [nulIdx] at h
  | b :: bs, h => by
    unfold nulIdx at h ⊢
    simp only [List.takeWhile_cons] at h ⊢
    split
    · rename_i hb
      simp only [hb, if_true, List.length_cons, Nat.add_lt_add_iff_right] at h
      simp only [List.length_cons, List.take_succ_cons, List.cons_append]
      have ih := take_nulIdx_succ bs (by unfold nulIdx; exact h)
      unfold nulIdx at ih
      rw [ih]
    · rename_i hb
      have : b = 0 := by simpa [nz] using hb
      simp [this]

theorem memRange_length (old : Mem) (p n : Nat) : (memRange old p n).length = n := by
  simp [memRange]

theorem padOf_lt {al : Nat} (h : 0 < al) (pos : Nat) : padOf al pos < al := Nat.mod_lt _ h

mutual
theorem encode_spec (old : Mem) : ∀ (a : Arg) (c : Cache) (i pos : Nat), wf a = true → Window c i (lens a) →
    encode old c i pos a = some (enc old pos a, i + (lens a).length)
  | .prim k b, c, i, pos, _, _ => by simp [encode, enc, lens]
  | .cstr none, c, i, pos, _, hw => by
    simp only [lens] at hw
    simp [encode, enc, lens, hw.head, cLen, u32max]
  | .cstr (some m), c, i, pos, h, hw => by
    simp only [wf, decide_eq_true_eq] at h
    simp only [lens, cLen_of_lt h] at hw
    have := nulIdx_le m
    have hn : ¬ (nulIdx m + 1 = 0 ∨ m.length < nulIdx m + 1 - 1) := by omega
    simp [encode, enc, lens, hw.head, takeWhile_eq_take_nulIdx]
    exact this
  | .carr m, c, i, pos, h, hw => by
    simp only [wf, decide_eq_true_eq] at h
    simp only [lens, cLen_of_lt h] at hw
    have hle := nulIdx_le m
    simp only [encode, hw.head, enc, lens, List.length_singleton]
    by_cases hlt : m.length < nulIdx m + 1
    · have he : nulIdx m = m.length := by omega
      simp [he, takeWhile_eq_take_nulIdx]
    · simp only [hlt, if_false]
      rw [take_nulIdx_succ m (by omega)]
  | .str s, c, i, pos, h, _ => by
    simp only [wf, decide_eq_true_eq] at h
    simp [encode, enc, lens, Nat.mod_eq_of_lt h]
  | .seq ki es elems, c, i, pos, h, hw => by
    simp only [wf, Bool.and_eq_true, decide_eq_true_eq] at h
    obtain ⟨⟨hok, hn⟩, hh⟩ := h
    have hL : (if (ki.fastSize && fastOK ki es) = true then [] else lensL elems) = lensL elems := by
      split
      · rename_i hf
        simp only [Bool.and_eq_true] at hf
        rw [fast_lensL hf.2 hh]
      · rfl
    simp only [lens, hL] at hw ⊢
    have ih := fun i0 p hw0 => encodeL_spec old elems c i0 p (homog_wfL hh) hw0
    -- the count read back from the cache (or taken from the container) is the element count
    have hcnt : ∃ i0, (if ki.pushCount = true then (c.data[i]?).map (fun n => (n, i + 1)) else some (elems.length, i))
          = some (elems.length, i0) ∧ Window c i0 (lensL elems) ∧
          i0 + (lensL elems).length = i + ((if ki.pushCount = true then [elems.length % U32] else []) ++ lensL elems).length := by
      cases hpc : ki.pushCount
      · exact ⟨i, by simp, by simpa [hpc] using hw, by simp⟩
      · simp only [hpc, if_true] at hw
        refine ⟨i + 1, ?_, hw.tail, ?_⟩
        · simp [hw.head, Nat.mod_eq_of_lt hn]
        · simp; omega
    obtain ⟨i0, h1, h2, h3⟩ := hcnt
    simp only [encode, h1, enc]
    by_cases hfe : (ki.fastEncode && fastOK ki es) = true
    · simp only [hfe, if_true]
      simp only [Bool.and_eq_true] at hfe
      have hm : ki.mapLike = false := by
        simp only [KindInfo.ok, hfe.1, Bool.and_true, Bool.not_eq_true'] at hok
        exact hok
      have hl0 : lensL elems = [] := fast_lensL hfe.2 hh
      rw [fast_bytes hfe.2 hm old (pos + (if ki.hasPrefix = true then 8 else 0)) hh]
      simp only [hl0, List.length_nil, Nat.add_zero] at h3
      simp only [h3, hl0, List.append_nil]
    · simp only [hfe, Bool.false_eq_true, if_false]
      rw [ih i0 _ h2, h3]
      cases ki.hasPrefix <;> simp [leBytes_length]
  | .optNone _, c, i, pos, _, _ => by simp [encode, enc, lens]
  | .optSome a, c, i, pos, h, hw => by
    simp only [wf] at h
    simp only [lens] at hw
    simp [encode, enc, lens, encode_spec old a c i (pos + 1) h hw]
  | .pair a b, c, i, pos, h, hw => by
    simp only [wf, Bool.and_eq_true] at h
    simp only [lens] at hw
    simp [encode, enc, lens, encode_spec old a c i pos h.1 hw.left,
      encode_spec old b c _ _ h.2 hw.right, Nat.add_assoc]
  | .tuple l, c, i, pos, h, hw => by
    simp only [wf] at h
    simp only [lens] at hw
    simp [encode, enc, lens, encodeL_spec old l c i pos h hw]
  | .pod obj, c, i, pos, _, _ => by simp [encode, enc, lens]
  | .nonpod al obj, c, i, pos, _, _ => by simp [encode, enc, lens]
  | .direct text, c, i, pos, h, hw => by
    simp only [wf, decide_eq_true_eq] at h
    simp only [lens, Nat.mod_eq_of_lt h] at hw
    simp [encode, enc, lens, hw.head]
  | .sref ptr len, c, i, pos, _, _ => by simp [encode, enc, lens]
  | .path s, c, i, pos, h, _ => by
    simp only [wf, decide_eq_true_eq] at h
    simp [encode, enc, lens, Nat.mod_eq_of_lt h]
theorem encodeL_spec (old : Mem) : ∀ (as : List Arg) (c : Cache) (i pos : Nat), wfL as = true →
    Window c i (lensL as) → encodeL old c i pos as = some (encL old pos as, i + (lensL as).length)
  | [], c, i, pos, _, _ => by simp [encodeL, encL, lensL]
  | a :: as, c, i, pos, h, hw => by
    simp only [wfL, Bool.and_eq_true] at h
    simp only [lensL] at hw
    simp [encodeL, encL, lensL, encode_spec old a c i pos h.1 hw.left,
      encodeL_spec old as c _ _ h.2 hw.right, Nat.add_assoc]
end


/-! ### decode ∘ encode = the documented view; bytes consumed = bytes written -/


theorem take_len {n : Nat} (a b : Bytes) (h : a.length = n) : (a ++ b).take n = a := by
  subst h; exact List.take_left
theorem drop_len {n : Nat} (a b : Bytes) (h : a.length = n) : (a ++ b).drop n = b := by
  subst h; exact List.drop_left
theorem len_sub (a b : Bytes) : (a ++ b).length - b.length = a.length := by simp
theorem len_sub3 (a b r : Bytes) : (a ++ b ++ r).length - (b ++ r).length = a.length := by
  simp only [List.length_append]; omega
theorem decodeLenPrefixed_spec' (s rest : Bytes) (h : s.length < U32) :
    decodeLenPrefixed (leBytes 4 s.length ++ (s ++ rest)) = some (s, rest) := by
  rw [← List.append_assoc]; exact decodeLenPrefixed_spec s rest h

mutual
theorem decode_spec (old : Mem) : ∀ (a : Arg) (pos : Nat) (rest : Bytes), wf a = true →
    decode (shapeOf a) pos (enc old pos a ++ rest) = some (view a, rest)
  | .prim k b, pos, rest, _ => by simp [decode, shapeOf, enc, view]
  | .cstr none, pos, rest, _ => by
    simpa [decode, shapeOf, enc, view] using decodeCStr_spec [] rest
  | .cstr (some m), pos, rest, _ => by
    simpa [decode, shapeOf, enc, view] using decodeCStr_spec m rest
  | .carr m, pos, rest, _ => by
    simpa [decode, shapeOf, enc, view] using decodeCStr_spec m rest
  | .str s, pos, rest, h => by
    simp only [wf, decide_eq_true_eq] at h
    simp [decode, shapeOf, enc, view, decodeLenPrefixed_spec' s rest h]
  | .seq ki es elems, pos, rest, h => by
    simp only [wf, Bool.and_eq_true, decide_eq_true_eq] at h
    obtain ⟨⟨_, hn⟩, hh⟩ := h
    have ih := fun p => decodeN_spec old elems es p rest hh
    cases hp : ki.hasPrefix
    · simp [decode, shapeOf, enc, view, hp, ih]
    · have h8 : (leBytes 8 elems.length).length = 8 := leBytes_length _ _
      have hv : leVal (leBytes 8 elems.length) = elems.length := leVal8 _ (by unfold U64; unfold U32 at hn; omega)
      have hnl : ¬ (leBytes 8 elems.length ++ encL old (pos + 8) elems ++ rest).length < 8 := by
        simp [h8]
      have ht : (leBytes 8 elems.length ++ encL old (pos + 8) elems ++ rest).take 8 = leBytes 8 elems.length := by
        rw [List.append_assoc, List.take_append_of_le_length (by omega), List.take_of_length_le (by omega)]
      have hd : (leBytes 8 elems.length ++ encL old (pos + 8) elems ++ rest).drop 8 = encL old (pos + 8) elems ++ rest := by
        rw [List.append_assoc, List.drop_append_of_le_length (by omega), List.drop_of_length_le (by omega)]; rfl
      simp only [decode, shapeOf, enc, view, hp, if_true, hnl, if_false, ht, hd, hv, ih]
  | .optNone _, pos, rest, _ => by simp [decode, shapeOf, enc, view]
  | .optSome a, pos, rest, h => by
    simp only [wf] at h
    simp [decode, shapeOf, enc, view, decode_spec old a (pos + 1) rest h]
  | .pair a b, pos, rest, h => by
    simp only [wf, Bool.and_eq_true] at h
    have h1 := decode_spec old a pos (enc old (pos + (enc old pos a).length) b ++ rest) h.1
    have h2 := decode_spec old b (pos + (enc old pos a).length) rest h.2
    simp only [decode, shapeOf, enc, view, List.append_assoc, h1, len_sub, h2]
  | .tuple l, pos, rest, h => by
    simp only [wf] at h
    simp [decode, shapeOf, enc, view, decodeL_spec old l pos rest h]
  | .pod obj, pos, rest, _ => by simp [decode, shapeOf, enc, view]
  | .nonpod al obj, pos, rest, h => by
    simp only [wf, decide_eq_true_eq] at h
    have hp := padOf_lt h pos
    simp only [decode, shapeOf, enc, view]
    generalize hA : memRange old pos (padOf al pos) = A
    generalize hC : memRange old (pos + padOf al pos + obj.length) (al - 1 - padOf al pos) = C
    have hAl : A.length = padOf al pos := by rw [← hA, memRange_length]
    have hCl : C.length = al - 1 - padOf al pos := by rw [← hC, memRange_length]
    have hlen : (A ++ obj ++ C).length = obj.length + al - 1 := by
      simp only [List.length_append, hAl, hCl]; omega
    have hnl : ¬ (A ++ obj ++ C ++ rest).length < obj.length + al - 1 := by
      simp only [List.length_append] at hlen ⊢; omega
    simp only [hnl, if_false]
    have e1 : ((A ++ obj ++ C ++ rest).drop (padOf al pos)).take obj.length = obj := by
      rw [← hAl, List.append_assoc, List.append_assoc, List.drop_left, List.take_left]
    have e2 : (A ++ obj ++ C ++ rest).drop (obj.length + al - 1) = rest := by
      rw [← hlen, List.drop_left]
    rw [e1, e2]
  | .direct text, pos, rest, h => by
    simp only [wf, decide_eq_true_eq] at h
    simp [decode, shapeOf, enc, view, decodeLenPrefixed_spec' text rest h]
  | .sref ptr len, pos, rest, h => by
    simp only [wf, Bool.and_eq_true, decide_eq_true_eq] at h
    obtain ⟨hp, hl⟩ := h
    have h8 : (leBytes 8 len).length = 8 := leBytes_length _ _
    simp only [decode, shapeOf, enc, view]
    have hnl : ¬ (ptr ++ leBytes 8 len ++ rest).length < 16 := by
      simp only [List.length_append, hp, h8]; omega
    have e1 : (ptr ++ leBytes 8 len ++ rest).take 8 = ptr := by
      rw [List.append_assoc]; exact take_len _ _ hp
    have e2 : ((ptr ++ leBytes 8 len ++ rest).drop 8).take 8 = leBytes 8 len := by
      rw [List.append_assoc, drop_len _ _ hp]; exact take_len _ _ h8
    have e3 : (ptr ++ leBytes 8 len ++ rest).drop 16 = rest :=
      drop_len _ _ (by simp only [List.length_append, hp, h8])
    simp only [hnl, if_false, e1, e2, e3, leVal8 len hl]
  | .path s, pos, rest, h => by
    simp only [wf, decide_eq_true_eq] at h
    simp [decode, shapeOf, enc, view, decodeLenPrefixed_spec' s rest h]
theorem decodeL_spec (old : Mem) : ∀ (as : List Arg) (pos : Nat) (rest : Bytes), wfL as = true →
    decodeL (shapesOf as) pos (encL old pos as ++ rest) = some (viewL as, rest)
  | [], pos, rest, _ => by simp [decodeL, shapesOf, encL, viewL]
  | a :: as, pos, rest, h => by
    simp only [wfL, Bool.and_eq_true] at h
    have h1 := decode_spec old a pos (encL old (pos + (enc old pos a).length) as ++ rest) h.1
    have h2 := decodeL_spec old as (pos + (enc old pos a).length) rest h.2
    simp only [decodeL, shapesOf, encL, viewL, List.append_assoc, h1, len_sub, h2]
theorem decodeN_spec (old : Mem) : ∀ (as : List Arg) (es : Shape) (pos : Nat) (rest : Bytes), homog es as = true →
    decodeN (decode es) as.length pos (encL old pos as ++ rest) = some (viewL as, rest)
  | [], es, pos, rest, _ => by simp [decodeN, encL, viewL]
  | a :: as, es, pos, rest, h => by
    obtain ⟨hs, hw, hh⟩ := homog_cons h
    have h1 := decode_spec old a pos (encL old (pos + (enc old pos a).length) as ++ rest) hw
    have h2 := decodeN_spec old as es (pos + (enc old pos a).length) rest hh
    rw [hs] at h1
    simp only [decodeN, List.length_cons, encL, viewL, List.append_assoc, h1, len_sub, h2]
end

end Codec
