import QuillModel.Codec.Model
/-! Helper lemmas for the codec model: little-endian integers, the size cache, cache windows, NUL search. -/
namespace Codec

theorem leBytes_length : ∀ (k n : Nat), (leBytes k n).length = k
  | 0, _ => rfl
  | k + 1, n => by simp [leBytes, leBytes_length k]

theorem toNat_ofNat_mod (n : Nat) : (UInt8.ofNat (n % 256)).toNat = n % 256 := by
  rw [UInt8.toNat_ofNat']; omega

theorem leVal_leBytes : ∀ (k n : Nat), leVal (leBytes k n) = n % 256 ^ k
  | 0, n => by simp [leBytes, leVal, Nat.mod_one]
  | k + 1, n => by
    simp only [leBytes, leVal, leVal_leBytes k, toNat_ofNat_mod]
    rw [Nat.pow_succ, Nat.mul_comm (256 ^ k) 256, Nat.mod_mul]

theorem leVal_leBytes_of_lt (k n : Nat) (h : n < 256 ^ k) : leVal (leBytes k n) = n := by
  rw [leVal_leBytes, Nat.mod_eq_of_lt h]

theorem leVal4 (n : Nat) (h : n < U32) : leVal (leBytes 4 n) = n :=
  leVal_leBytes_of_lt 4 n (by simpa [U32] using h)

theorem leVal8 (n : Nat) (h : n < U64) : leVal (leBytes 8 n) = n :=
  leVal_leBytes_of_lt 8 n (by simpa [U64] using h)

/-! ### NUL search -/

theorem nulIdx_le (m : Bytes) : nulIdx m ≤ m.length := by
  unfold nulIdx
  induction m with
  | nil => simp
  | cons b bs ih => simp only [List.takeWhile_cons]; split <;> simp; omega

theorem takeWhile_eq_take_nulIdx (m : Bytes) : m.takeWhile nz = m.take (nulIdx m) := by
  unfold nulIdx
  induction m with
  | nil => rfl
  | cons b bs ih =>
    simp only [List.takeWhile_cons]
    split
    · simp only [List.length_cons, List.take_succ_cons]; rw [← ih]
    · simp

/-- the string before the first NUL contains no NUL -/
theorem nulIdx_takeWhile_append (m rest : Bytes) :
    nulIdx (m.takeWhile nz ++ 0 :: rest) = (m.takeWhile nz).length := by
  unfold nulIdx
  induction m with
  | nil => simp [nz]
  | cons b bs ih =>
    simp only [List.takeWhile_cons]
    split
    · rename_i h; simp only [List.cons_append, List.takeWhile_cons, h, if_true, List.length_cons]; rw [ih]
    · simp [nz]

theorem decodeCStr_spec (m rest : Bytes) :
    decodeCStr (m.takeWhile nz ++ [0] ++ rest) = some (.text (m.takeWhile nz), rest) := by
  have h := nulIdx_takeWhile_append m rest
  simp only [List.append_assoc, List.singleton_append]
  unfold decodeCStr
  rw [h]
  have hlt : (m.takeWhile nz).length < (m.takeWhile nz ++ 0 :: rest).length := by
    simp
  simp only [hlt, if_true]
  congr 2
  · congr 1; simp
  · rw [List.drop_append]; simp

theorem decodeLenPrefixed_spec (s rest : Bytes) (h : s.length < U32) :
    decodeLenPrefixed (leBytes 4 s.length ++ s ++ rest) = some (s, rest) := by
  unfold decodeLenPrefixed
  have h4 : (leBytes 4 s.length).length = 4 := leBytes_length _ _
  have hnl : ¬ (leBytes 4 s.length ++ s ++ rest).length < 4 := by simp [h4]
  have ht : (leBytes 4 s.length ++ s ++ rest).take 4 = leBytes 4 s.length := by
    rw [List.append_assoc, List.take_append_of_le_length (by omega)]
    rw [List.take_of_length_le (by omega)]
  have hd : (leBytes 4 s.length ++ s ++ rest).drop 4 = s ++ rest := by
    rw [List.append_assoc, List.drop_append_of_le_length (by omega)]
    rw [List.drop_of_length_le (by omega)]; rfl
  simp only [hnl, if_false, ht, hd, leVal4 _ h]
  have : ¬ (s ++ rest).length < s.length := by simp
  simp only [this, if_false]
  simp

/-! ### the size cache -/

theorem push_data (c : Cache) (v : Nat) : (c.push v).data = c.data ++ [v] := by
  unfold Cache.push; split <;> rfl

theorem pushAll_nil (c : Cache) : c.pushAll [] = c := rfl
theorem pushAll_cons (c : Cache) (x : Nat) (xs : List Nat) : c.pushAll (x :: xs) = (c.push x).pushAll xs := rfl

theorem pushAll_append (c : Cache) (xs ys : List Nat) : c.pushAll (xs ++ ys) = (c.pushAll xs).pushAll ys := by
  unfold Cache.pushAll; rw [List.foldl_append]

theorem pushAll_singleton (c : Cache) (x : Nat) : c.pushAll [x] = c.push x := rfl

theorem pushAll_data (c : Cache) (xs : List Nat) : (c.pushAll xs).data = c.data ++ xs := by
  induction xs generalizing c with
  | nil => simp [pushAll_nil]
  | cons x xs ih => rw [pushAll_cons, ih, push_data]; simp

/-- capacity and allocation log after some pushes depend only on the number of live entries -/
theorem pushAll_congr (xs : List Nat) : ∀ (c1 c2 : Cache), c1.data.length = c2.data.length → c1.cap = c2.cap →
    c1.grown = c2.grown →
    (c1.pushAll xs).cap = (c2.pushAll xs).cap ∧ (c1.pushAll xs).grown = (c2.pushAll xs).grown := by
  induction xs with
  | nil => intro c1 c2 _ h2 h3; exact ⟨h2, h3⟩
  | cons x xs ih =>
    intro c1 c2 h1 h2 h3
    rw [pushAll_cons, pushAll_cons]
    apply ih
    · rw [push_data, push_data]; simp [h1]
    · unfold Cache.push; rw [h1, h2]; split <;> rfl
    · unfold Cache.push; rw [h1, h2, h3]; split <;> rfl

theorem Cache.ext' {c1 c2 : Cache} (h1 : c1.data = c2.data) (h2 : c1.cap = c2.cap) (h3 : c1.grown = c2.grown) :
    c1 = c2 := by
  cases c1; cases c2; simp_all

/-- `forward_list`: push a placeholder, push the elements' lengths, then patch the placeholder -/
theorem pushAll_assign (c : Cache) (n : Nat) (xs : List Nat) :
    ((c.push 0).pushAll xs).assign ((c.push 0).data.length - 1) n = (c.push n).pushAll xs := by
  apply Cache.ext'
  · simp only [Cache.assign, pushAll_data, push_data, List.length_append, List.length_singleton,
      Nat.add_sub_cancel]
    rw [List.append_assoc, List.set_append_right _ _ (Nat.le_refl _)]
    simp
  · exact (pushAll_congr xs (c.push 0) (c.push n) (by simp [push_data])
      (by unfold Cache.push; split <;> rfl) (by unfold Cache.push; split <;> rfl)).1
  · exact (pushAll_congr xs (c.push 0) (c.push n) (by simp [push_data])
      (by unfold Cache.push; split <;> rfl) (by unfold Cache.push; split <;> rfl)).2

/-! ### cache windows: the entries the encode pass will read -/

/-- the entries of `c` from index `i` on start with `xs` -/
def Window (c : Cache) (i : Nat) (xs : List Nat) : Prop := ∃ post, c.data.drop i = xs ++ post

theorem Window.nil (c : Cache) (i : Nat) : Window c i [] := ⟨_, rfl⟩

theorem Window.head {c : Cache} {i x : Nat} {xs : List Nat} (h : Window c i (x :: xs)) : c.data[i]? = some x := by
  obtain ⟨post, hp⟩ := h
  have := congrArg List.head? hp
  simpa [List.head?_drop] using this

theorem Window.tail {c : Cache} {i x : Nat} {xs : List Nat} (h : Window c i (x :: xs)) : Window c (i + 1) xs := by
  obtain ⟨post, hp⟩ := h
  refine ⟨post, ?_⟩
  have := congrArg List.tail hp
  simpa [List.tail_drop] using this

theorem Window.left {c : Cache} {i : Nat} {xs ys : List Nat} (h : Window c i (xs ++ ys)) : Window c i xs := by
  obtain ⟨post, hp⟩ := h
  exact ⟨ys ++ post, by rw [hp, List.append_assoc]⟩

theorem Window.right {c : Cache} {i : Nat} {xs ys : List Nat} (h : Window c i (xs ++ ys)) :
    Window c (i + xs.length) ys := by
  obtain ⟨post, hp⟩ := h
  refine ⟨post, ?_⟩
  have := congrArg (List.drop xs.length) hp
  rw [List.drop_drop] at this
  rw [this, List.append_assoc, List.drop_left]

/-- right after the size pass the window is in place -/
theorem Window.of_pushAll (c : Cache) (xs : List Nat) : Window (c.pushAll xs) c.data.length xs :=
  ⟨[], by rw [pushAll_data]; simp⟩

end Codec
