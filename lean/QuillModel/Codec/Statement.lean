import QuillModel.Codec.Lemmas
/-! Statement level helpers: the cache-clearing rule, framing, the sanitiser. -/
namespace Codec

/-- the arguments that do not trigger `clear()` cache nothing -/
theorem noClear_lensL : ∀ (args : List Arg), args.any needsClear = false → lensL args = []
  | [], _ => by simp [lensL]
  | a :: as, h => by
    simp only [List.any_cons, Bool.or_eq_false_iff] at h
    have ih := noClear_lensL as h.2
    cases a <;> simp [needsClear] at h <;> simp [lensL, lens, ih]

/-- the cache the size pass of a statement starts from -/
def startCache (c : Cache) (args : List Arg) : Cache := if args.any needsClear then c.clear else c

theorem sizeStatement_spec (old : Mem) (c : Cache) (args : List Arg) (pos : Nat) (h : wfL args = true) :
    sizeStatement c args = ((encL old pos args).length, (startCache c args).pushAll (lensL args)) := by
  unfold sizeStatement startCache
  exact sizePassL_spec old args _ pos h

/-- whatever the cache held before the statement, the encode pass finds this statement's lengths from index 0 -/
theorem window_statement (c : Cache) (args : List Arg) :
    Window ((startCache c args).pushAll (lensL args)) 0 (lensL args) := by
  unfold startCache
  cases h : args.any needsClear
  · rw [noClear_lensL args h]; exact Window.nil _ _
  · simpa [Cache.clear] using Window.of_pushAll c.clear (lensL args)

/-! ### statement histories: the `clear()` at the start of the size pass -/

theorem sizeStatementAt_true (c : Cache) (args : List Arg) : sizeStatementAt true c args = sizeStatement c args := by
  simp [sizeStatementAt, sizeStatement]

/-- with the `clear()` at the start of the size pass a dropped statement and a logged one leave the same cache -/
theorem StmtOp.apply_true (c : Cache) (op : StmtOp) : op.apply true c = (sizeStatement c op.args).2 := by
  cases op <;> simp [StmtOp.apply, StmtOp.args, sizeStatementAt_true]

/-- the two passes of a statement on *any* cache: the size pass reserves the length of the specified encoding, the
    encode pass writes exactly it -/
theorem passes_spec (old : Mem) (c : Cache) (args : List Arg) (pos : Nat) (h : wfL args = true) :
    ((sizeStatement c args).1, (encodeL old (sizeStatement c args).2 0 pos args).map (·.1)) =
      ((encL old pos args).length, some (encL old pos args)) := by
  rw [sizeStatement_spec old c args pos h]
  simp only [encodeL_spec old args _ 0 pos h (window_statement c args), Option.map_some]

/-! ### sanitiser -/

theorem sanitizeBy_eq_flatMap (ok : UInt8 → Bool) (s : Bytes) : sanitizeBy ok s = s.flatMap (sanitizeByteBy ok) := by
  unfold sanitizeBy
  split
  · rename_i h
    induction s with
    | nil => rfl
    | cons b bs ih =>
      simp only [List.all_cons, Bool.and_eq_true] at h
      simp only [List.flatMap_cons, sanitizeByteBy, h.1, if_true, List.singleton_append]
      rw [← ih h.2]
  · rfl

theorem flatMapBy_id_of_all (ok : UInt8 → Bool) : ∀ (s : Bytes), s.all ok = true → s.flatMap (sanitizeByteBy ok) = s
  | [], _ => rfl
  | b :: bs, h => by
    simp only [List.all_cons, Bool.and_eq_true] at h
    simp only [List.flatMap_cons, sanitizeByteBy, h.1, if_true, List.singleton_append, flatMapBy_id_of_all ok bs h.2]

theorem escape_length (b : UInt8) : (escape b).length = 4 := rfl

theorem flatMapBy_length (ok : UInt8 → Bool) : ∀ (s : Bytes),
    (s.flatMap (sanitizeByteBy ok)).length = s.length + 3 * (s.filter (fun b => !ok b)).length
  | [] => rfl
  | b :: bs => by
    simp only [List.flatMap_cons, List.length_append, List.length_cons, flatMapBy_length ok bs, List.filter_cons]
    cases h : ok b <;> simp [sanitizeByteBy, h, escape_length] <;> omega

theorem sanitize_eq_flatMap (p : Printable) (s : Bytes) : sanitize p s = s.flatMap (sanitizeByte p) :=
  sanitizeBy_eq_flatMap p.ok s

theorem flatMap_id_of_all (p : Printable) (s : Bytes) (h : s.all p.ok = true) : s.flatMap (sanitizeByte p) = s :=
  flatMapBy_id_of_all p.ok s h

theorem flatMap_length (p : Printable) (s : Bytes) :
    (s.flatMap (sanitizeByte p)).length = s.length + 3 * (s.filter (fun b => !p.ok b)).length :=
  flatMapBy_length p.ok s

/-- `"0123456789ABCDEF"` -/
def hexDigitsUpper : List UInt8 := [48, 49, 50, 51, 52, 53, 54, 55, 56, 57, 65, 66, 67, 68, 69, 70]

theorem hexUpper_table : ∀ n : Fin 16, hexUpper n.val = hexDigitsUpper[n.val]! := by decide

end Codec
