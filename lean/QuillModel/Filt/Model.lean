import QuillModel.Spin.Model
/-!
# `Sink::add_filter` / `set_log_level_filter` against `Sink::apply_all_filters` under the view semantics (C16, concurrency)

Anchors: `include/quill/sinks/Sink.h` — `add_filter` (frontend threads: `LockGuard` on `_global_filters_lock`, duplicate
check, `_global_filters.push_back`, `_new_filter.store(true, relaxed)`, unlock in the guard's destructor),
`set_log_level_filter` (`_log_level.store(relaxed)`), `apply_all_filters` (backend thread: `_log_level.load(relaxed)`;
`_new_filter.load(relaxed)`; if set: `_local_filters.clear()`, `LockGuard`, copy of the pointers,
`_new_filter.store(false, relaxed)`, unlock; then the level + `_local_filters` decide).

* The lock **is** `Spin.St` (`Spin/Model.lean`): every lock/unlock/critical-section access below goes through `Spin.step`,
  so `Spin.SInv` (mutual exclusion, visibility of the protected data) is inherited, not re-modelled.
* `_new_filter` and `_log_level` are multi-writer atomics accessed with *relaxed* orders only: each keeps its whole store
  history (`hval`/`lval`, index = position in modification order) and a load by thread `t` may return **any** store whose
  index is at least `t`'s floor for that location (`Know.f` / `Know.l`: the newest store that `t` has observed or that
  happens-before its next action). Relaxed accesses move no knowledge. The model never uses the orders of these two
  atomics: they are treated as the weakest possible, stronger orders only remove behaviours.
* Knowledge (`Know`: the two floors + the ghost set `done` of filters whose `add_filter` call has *returned*
  happens-before) travels only along release/acquire edges: the lock's `unlock` → `exchange` pair (`lockK`, the view
  carried by the release sequence of the lock flag) and the SPSC queue's publication (`logStore` attaches the logging
  thread's knowledge to the statement, `pollLoad` joins it into the backend's: the queue's release store / acquire load,
  C01). A failed `exchange` and the relaxed test loop acquire nothing here (the model knows less than the real thread, i.e.
  it allows more stale results than the code can see: a superset of behaviours).
* Thread 0 is the backend, threads `1 … n` are frontends. One `Op` = one scheduler step of `harness/h1_filters.cpp`
  (= one atomic access followed by the plain code up to the next atomic access).
* Ghost: `hcov j` = length of `_global_filters` when store `j` of `_new_filter` was made, `started`, `curDone`, `evals`
  (one record per evaluation), `races` (critical-section accesses of `_global_filters` that were not race-free).
* `Params`: the lock's memory orders and two structural facts read off the header by `tools/extractors/filt.py`:
  `resetBeforeCopy` (the flag reset precedes the copy loop — both inside the critical section) and `tryLock`
  (the backend does not wait for the lock: `try_lock`, and evaluates anyway when it is busy — not in the real code; kept so
  that the negative witness of `Props/C16Filt.lean` is a statement about *this* machine).
-/
namespace Filt
open Spsc (MO)
open Spin (upd)

/-- the harness' filters: id `F = m*16 + r` rejects the statements whose id is `≡ r (mod m)` -/
def accepts (F k : Nat) : Bool := k % (F / 16) != F % 16

structure Know where
  f : Nat := 0            -- `_new_filter`: coherence floor (index into the store history)
  l : Nat := 0            -- `_log_level`: same
  done : List Nat := []   -- ghost: filters whose `add_filter` has returned happens-before
  deriving Repr, DecidableEq, Inhabited

def Know.join (a b : Know) : Know := { f := max a.f b.f, l := max a.l b.l, done := a.done ++ b.done }

structure Params where
  lock : Spin.Orders
  resetBeforeCopy : Bool
  tryLock : Bool
  deriving Repr, DecidableEq

inductive FPc
  | idle
  | lockW (F : Nat)     -- add_filter: inside `lock()`
  | setF (F : Nat)      -- add_filter: lock held, filter pushed; next `_new_filter.store(true)`
  | unl (F : Nat)       -- add_filter: next the guard's unlock, then return
  | lvl (l : Nat)       -- set_log_level_filter: next `_log_level.store(l)`
  | log (k lv : Nat)    -- log statement: next the queue's release store
  deriving Repr, DecidableEq, Inhabited

inductive BPc
  | idle
  | poll (u : Nat)      -- next: acquire load of frontend u's queue tail
  | lvl                 -- apply_all_filters: next `_log_level.load`
  | flag                -- next `_new_filter.load`
  | lockW               -- `_local_filters` cleared; inside `lock()` (or `try_lock()`)
  | reset               -- lock held; next `_new_filter.store(false)`
  | unl                 -- next the unlock, then the evaluation
  deriving Repr, DecidableEq, Inhabited

structure Msg where
  k : Nat
  lv : Nat
  kn : Know
  deriving Repr, Inhabited

structure EvalRec where
  k : Nat
  lv : Nat
  lvlFloor : Nat        -- backend's `_log_level` floor when the evaluation began
  lvlIdx : Nat          -- the store the level load returned
  sinkLvl : Nat
  done : List Nat       -- DONE: add_filter returned happens-before the begin of the evaluation
  used : List Nat       -- `_local_filters` the verdict was computed from
  started : List Nat    -- STARTED: add_filter calls begun before the evaluation ended
  reached : Bool        -- the level test passed, the filters were consulted
  verdict : Bool
  deriving Repr, Inhabited

structure St where
  lock : Spin.St
  lockK : Know := {}
  know : Nat → Know := fun _ => {}
  hlen : Nat := 1
  hval : Nat → Bool := fun _ => false
  hcov : Nat → Nat := fun _ => 0
  llen : Nat := 1
  lval : Nat → Nat
  glob : List Nat := []
  loc : List Nat := []
  fpc : Nat → FPc := fun _ => .idle
  bpc : BPc := .idle
  queue : Nat → List Msg := fun _ => []
  head : Nat → Nat := fun _ => 0
  curK : Nat := 0
  curLv : Nat := 0
  curFloor : Nat := 0
  curIdx : Nat := 0
  curSink : Nat := 0
  curDone : List Nat := []
  started : List Nat := []
  evals : List EvalRec := []
  races : Nat := 0

/-- `n` frontend threads, sink level `lvl0` -/
def init (n lvl0 : Nat) : St := { lock := { nthreads := n + 1 }, lval := fun _ => lvl0 }

inductive Op
  | beginAdd (u F : Nat)
  | spin (t : Nat)            -- one relaxed test load of `lock()` / `try_lock()` that lets the thread go on trying
  | xchg (t : Nat)            -- the `exchange(Locked, …)`
  | setFlag (u : Nat)
  | unlock (t : Nat)
  | beginLvl (u l : Nat)
  | storeLvl (u : Nat)
  | beginLog (u k lv : Nat)
  | logStore (u : Nat)
  | beginPoll (u : Nat)
  | pollLoad (n : Nat)        -- the tail value read: `n` statements of that thread are visible
  | loadLvl (j : Nat)         -- `_log_level.load` returned store `j`
  | loadFlag (j : Nat)        -- `_new_filter.load` returned store `j`
  | reset
  | tryFail                   -- `tryLock` variant only: the test load of `try_lock()` saw the lock busy
  deriving Repr

def FPc.isLockW : FPc → Bool | .lockW _ => true | _ => false
def FPc.isSetF : FPc → Bool | .setF _ => true | _ => false
def FPc.isUnl : FPc → Bool | .unl _ => true | _ => false
def FPc.isLvl : FPc → Bool | .lvl _ => true | _ => false
def FPc.isLog : FPc → Bool | .log _ _ => true | _ => false
def BPc.isPoll : BPc → Bool | .poll _ => true | _ => false

def front (s : St) (u : Nat) : Bool := decide (0 < u) && decide (u < s.lock.nthreads)

def enabled (p : Params) (s : St) : Op → Bool
  | .beginAdd u _ => front s u && decide (s.fpc u = .idle)
  | .spin t => if t = 0 then decide (s.bpc = .lockW) else front s t && (s.fpc t).isLockW
  | .xchg t => if t = 0 then decide (s.bpc = .lockW) else front s t && (s.fpc t).isLockW
  | .setFlag u => front s u && (s.fpc u).isSetF
  | .unlock t => if t = 0 then decide (s.bpc = .unl) else front s t && (s.fpc t).isUnl
  | .beginLvl u _ => front s u && decide (s.fpc u = .idle)
  | .storeLvl u => front s u && (s.fpc u).isLvl
  | .beginLog u _ _ => front s u && decide (s.fpc u = .idle)
  | .logStore u => front s u && (s.fpc u).isLog
  | .beginPoll u => front s u && decide (s.bpc = .idle)
  | .pollLoad n => match s.bpc with
    | .poll u => decide (n ≤ (s.queue u).length)
    | _ => false
  | .loadLvl j => decide (s.bpc = .lvl) && decide ((s.know 0).l ≤ j) && decide (j < s.llen)
  | .loadFlag j => decide (s.bpc = .flag) && decide ((s.know 0).f ≤ j) && decide (j < s.hlen)
  | .reset => decide (s.bpc = .reset)
  | .tryFail => p.tryLock && decide (s.bpc = .lockW) && s.lock.locked

def Enabled (p : Params) (s : St) (op : Op) : Prop := enabled p s op = true
instance (p : Params) (s : St) (op : Op) : Decidable (Enabled p s op) := by unfold Enabled; infer_instance

/-- the critical-section access of `_global_filters` by `t` is race-free: it sees the newest version and nobody else is inside -/
def raceFree (l : Spin.St) (t : Nat) : Bool :=
  decide (l.seen t = l.data) && (List.range l.nthreads).all (fun u => u == t || !l.inCS u)

/-- a plain access of `_global_filters` by `t` -/
def touch (o : Spin.Orders) (s : St) (t : Nat) : St :=
  { s with races := if raceFree s.lock t then s.races else s.races + 1, lock := Spin.step o s.lock (.access t) }

/-- a successful `exchange` of `lock()` -/
def acquire (o : Spin.Orders) (s : St) (t : Nat) : St :=
  { s with lock := Spin.step o s.lock (.attempt t),
           know := if o.xchg.isAcq then upd s.know t ((s.know t).join s.lockK) else s.know }

def release (o : Spin.Orders) (s : St) (t : Nat) : St :=
  { s with lock := Spin.step o s.lock (.unlock t), lockK := if o.unl.isRel then s.know t else {} }

/-- the end of `apply_all_filters`: level already compared; `reached = false` when the level test failed -/
def finish (s : St) (reached : Bool) : St :=
  let used := if reached then s.loc else []
  { s with bpc := .idle,
           evals := { k := s.curK, lv := s.curLv, lvlFloor := s.curFloor, lvlIdx := s.curIdx, sinkLvl := s.curSink,
                      done := s.curDone, used := used, started := s.started, reached := reached,
                      verdict := reached && used.all (fun F => accepts F s.curK) } :: s.evals }

def storeFlag (s : St) (t : Nat) (v : Bool) : St :=
  { s with hval := upd s.hval s.hlen v, hcov := upd s.hcov s.hlen s.glob.length, hlen := s.hlen + 1,
           know := upd s.know t { s.know t with f := s.hlen } }

def step (p : Params) (s : St) : Op → St
  | .beginAdd u F => { s with fpc := upd s.fpc u (.lockW F), started := F :: s.started }
  | .spin _ => s
  | .xchg t =>
    if t = 0 then
      if s.lock.locked then (if p.tryLock then finish s true else s)
      else
        let s1 := acquire p.lock s 0
        if p.resetBeforeCopy then { s1 with bpc := .reset }
        else { touch p.lock s1 0 with loc := s1.glob, bpc := .reset }
    else
      match s.fpc t with
      | .lockW F =>
        if s.lock.locked then s
        else
          let s1 := touch p.lock (acquire p.lock s t) t
          { s1 with glob := s1.glob ++ [F], fpc := upd s1.fpc t (.setF F) }
      | _ => s
  | .setFlag u =>
    match s.fpc u with
    | .setF F => { storeFlag s u true with fpc := upd s.fpc u (.unl F) }
    | _ => s
  | .unlock t =>
    if t = 0 then finish (release p.lock s 0) true
    else
      match s.fpc t with
      | .unl F =>
        let s1 := release p.lock s t
        { s1 with know := upd s1.know t { s1.know t with done := F :: (s1.know t).done }, fpc := upd s1.fpc t .idle }
      | _ => s
  | .beginLvl u l => { s with fpc := upd s.fpc u (.lvl l) }
  | .storeLvl u =>
    match s.fpc u with
    | .lvl l => { s with lval := upd s.lval s.llen l, llen := s.llen + 1, know := upd s.know u { s.know u with l := s.llen },
                         fpc := upd s.fpc u .idle }
    | _ => s
  | .beginLog u k lv => { s with fpc := upd s.fpc u (.log k lv) }
  | .logStore u =>
    match s.fpc u with
    | .log k lv => { s with queue := upd s.queue u (s.queue u ++ [{ k := k, lv := lv, kn := s.know u }]), fpc := upd s.fpc u .idle }
    | _ => s
  | .beginPoll u => { s with bpc := .poll u }
  | .pollLoad n =>
    match s.bpc with
    | .poll u =>
      if s.head u < n then
        match (s.queue u)[s.head u]? with
        | some m =>
          let kn := (s.know 0).join m.kn
          { s with know := upd s.know 0 kn, head := upd s.head u (s.head u + 1), curK := m.k, curLv := m.lv,
                   curDone := kn.done, curFloor := kn.l, bpc := .lvl }
        | none => s
      else { s with bpc := .idle }
    | _ => s
  | .loadLvl j =>
    let s1 := { s with know := upd s.know 0 { s.know 0 with l := j }, curIdx := j, curSink := s.lval j }
    if s.curLv < s.lval j then finish s1 false else { s1 with bpc := .flag }
  | .loadFlag j =>
    let s1 := { s with know := upd s.know 0 { s.know 0 with f := j } }
    if s.hval j then { s1 with loc := [], bpc := .lockW } else finish s1 true
  | .reset =>
    let s1 := { storeFlag s 0 false with bpc := .unl }
    if p.resetBeforeCopy then { touch p.lock s1 0 with loc := s1.glob } else s1
  | .tryFail => finish s true

def Run (p : Params) : St → List Op → Prop
  | _, [] => True
  | s, op :: ops => Enabled p s op ∧ Run p (step p s op) ops

def run (p : Params) : St → List Op → St
  | s, [] => s
  | s, op :: ops => run p (step p s op) ops

def decRun (p : Params) : (s : St) → (ops : List Op) → Decidable (Run p s ops)
  | _, [] => isTrue trivial
  | s, op :: ops =>
      match (inferInstance : Decidable (Enabled p s op)), decRun p (step p s op) ops with
      | isTrue h1, isTrue h2 => isTrue ⟨h1, h2⟩
      | isFalse h1, _ => isFalse (fun h => h1 h.1)
      | _, isFalse h2 => isFalse (fun h => h2 h.2)
instance (p : Params) (s : St) (ops : List Op) : Decidable (Run p s ops) := decRun p s ops

/-- the oracle's statement for one evaluation -/
def Good (e : EvalRec) : Prop :=
  e.lvlFloor ≤ e.lvlIdx ∧
  (e.reached = false → e.lv < e.sinkLvl ∧ e.verdict = false) ∧
  (e.reached = true → e.sinkLvl ≤ e.lv ∧ e.verdict = e.used.all (fun F => accepts F e.k) ∧
    (∀ F, F ∈ e.done → F ∈ e.used) ∧ (∀ F, F ∈ e.used → F ∈ e.started))

/-- a statement was accepted although a filter of its DONE set rejects it -/
def EvalRec.leaked (e : EvalRec) : Bool := e.verdict && e.done.any (fun F => !accepts F e.k)

end Filt
