import QuillModel.Filt.ProofsC
/-! Stage D of the invariant of `Filt/Model.lean`: every evaluation record satisfies the oracle's statement (`Good`):
DONE ⊆ `_local_filters` used ⊆ STARTED, the verdict is the conjunction over exactly those filters, the sink level
compared is a store at or above the backend's floor at the begin of the evaluation. -/
namespace Filt
open Spin (upd)

structure InvD (s : St) : Prop where
  gs : ∀ F, F ∈ s.glob → F ∈ s.started
  pLock : ∀ u F, s.fpc u = .lockW F → F ∈ s.started
  cd : ∀ F, F ∈ s.curDone → F ∈ (s.know 0).done
  fl : s.bpc = .lvl → s.curFloor ≤ (s.know 0).l
  lv : (s.bpc = .flag ∨ s.bpc = .lockW ∨ s.bpc = .reset ∨ s.bpc = .unl) → s.curSink ≤ s.curLv ∧ s.curFloor ≤ s.curIdx
  ev : ∀ e, e ∈ s.evals → Good e

theorem initD (n lvl0 : Nat) : InvD (init n lvl0) := by
  refine { gs := by simp [init], pLock := by simp [init], cd := by simp [init], fl := by simp [init], lv := by simp [init], ev := by simp [init] }

/-- a filter of `_global_filters` at a position below the length of `_local_filters` is in `_local_filters` -/
theorem mem_of_prefix {loc glob : List Nat} (hp : loc <+: glob) {q F : Nat} (hq : q < loc.length) (hg : glob[q]? = some F) : F ∈ loc := by
  obtain ⟨r, hr⟩ := hp
  rw [← hr, List.getElem?_append_left hq] at hg
  exact List.mem_of_getElem? hg

/-- the evaluation record pushed by `finish … true` is good when DONE ⊆ `_local_filters` -/
theorem finishGood {s : St} (hD : InvD s) (hpre : s.loc <+: s.glob)
    (hlv : s.curSink ≤ s.curLv ∧ s.curFloor ≤ s.curIdx) (hdone : ∀ F, F ∈ s.curDone → F ∈ s.loc) :
    ∀ e, e ∈ (finish s true).evals → Good e := by
  intro e he
  have he' : e ∈ _ :: s.evals := he
  rcases List.mem_cons.mp he' with h1 | h1
  · subst h1
    refine ⟨hlv.2, ?_, ?_⟩
    · intro hh; cases hh
    · intro _
      refine ⟨hlv.1, ?_, hdone, ?_⟩
      · simp
      · intro F hF
        exact hD.gs F (hpre.subset hF)
  · exact hD.ev e h1

/-- frame: the step touches nothing stage D reads except possibly `fpc` (handled by the caller through `pLock`) -/
theorem InvD.pcOut {s : St} (h : InvD s) (u : Nat) (pc : FPc) (h1 : ∀ F, pc ≠ .lockW F) :
    ∀ v F, upd s.fpc u pc v = .lockW F → F ∈ s.started := by
  intro v F hv
  simp only [upd] at hv
  by_cases hvu : v = u
  · simp only [hvu, if_true] at hv; exact absurd hv (h1 F)
  · simp only [hvu, if_false] at hv; exact h.pLock v F hv

theorem know0_upd {know : Nat → Know} {u : Nat} (hu : 0 < u) (K : Know) : upd know u K 0 = know 0 := by
  simp only [upd]; have : (0 : Nat) ≠ u := by omega
  simp [this]

theorem stepD (p : Params) (hnt : p.tryLock = false) (s : St) (op : Op)
    (hB : InvB s) (hC : InvC p s) (h : InvD s) (he : Enabled p s op) : InvD (step p s op) := by
  cases op with
  | beginAdd u F =>
    refine { gs := fun G hG => List.mem_cons_of_mem _ (h.gs G hG), pLock := ?_, cd := h.cd, fl := h.fl, lv := h.lv, ev := h.ev }
    intro v G hv
    show G ∈ F :: s.started
    have hv' : upd s.fpc u (.lockW F) v = .lockW G := hv
    simp only [upd] at hv'
    by_cases hvu : v = u
    · simp only [hvu, if_true] at hv'
      have : F = G := by injection hv'
      subst this; simp
    · simp only [hvu, if_false] at hv'; exact List.mem_cons_of_mem _ (h.pLock v G hv')
  | spin t => exact h
  | xchg t =>
    simp only [step]
    by_cases ht : t = 0
    · subst ht
      simp only [Enabled, enabled, if_true, decide_eq_true_eq] at he
      simp only [if_true, hnt]
      by_cases hl : s.lock.locked = true
      · simp only [hl, if_true]; exact h
      · have hl' : s.lock.locked = false := by simpa using hl
        simp only [hl', Bool.false_eq_true, if_false]
        have hlv := h.lv (Or.inr (Or.inl he))
        have hcd : ∀ F, F ∈ s.curDone → F ∈ ((acquire p.lock s 0).know 0).done := by
          intro F hF
          have := h.cd F hF
          unfold acquire
          split
          · show F ∈ (upd s.know 0 ((s.know 0).join s.lockK) 0).done
            simp only [upd, if_true]
            exact List.mem_append_left _ this
          · exact this
        split
        · exact { gs := h.gs, pLock := h.pLock, cd := hcd, fl := (by intro hh; cases hh), lv := fun _ => hlv, ev := h.ev }
        · exact { gs := h.gs, pLock := h.pLock, cd := hcd, fl := (by intro hh; cases hh), lv := fun _ => hlv, ev := h.ev }
    · simp only [Enabled, enabled, ht, if_false, Bool.and_eq_true, front_iff] at he
      obtain ⟨⟨ht0, _⟩, _⟩ := he
      simp only [ht, if_false]
      cases hpcv : s.fpc t with
      | lockW F =>
        simp only []
        by_cases hl : s.lock.locked = true
        · simp only [hl, if_true]; exact h
        · have hl' : s.lock.locked = false := by simpa using hl
          simp only [hl', Bool.false_eq_true, if_false]
          have hk0 : (acquire p.lock s t).know 0 = s.know 0 := by
            unfold acquire
            split
            · exact know0_upd ht0 _
            · rfl
          refine { gs := ?_, pLock := ?_, cd := ?_, fl := ?_, lv := h.lv, ev := h.ev }
          · intro G hG
            have hG' : G ∈ s.glob ++ [F] := hG
            rcases List.mem_append.mp hG' with h1 | h1
            · exact h.gs G h1
            · simp only [List.mem_singleton] at h1; subst h1; exact h.pLock t G hpcv
          · exact h.pcOut t (.setF F) (by intro G; simp)
          · intro G hG
            show G ∈ ((acquire p.lock s t).know 0).done
            rw [hk0]; exact h.cd G hG
          · intro hh
            show s.curFloor ≤ ((acquire p.lock s t).know 0).l
            rw [hk0]; exact h.fl hh
      | idle => exact h
      | setF F => exact h
      | unl F => exact h
      | lvl l => exact h
      | log k lv => exact h
  | setFlag u =>
    simp only [Enabled, enabled, Bool.and_eq_true, front_iff] at he
    obtain ⟨⟨hu0, _⟩, _⟩ := he
    simp only [step]
    cases hpcv : s.fpc u with
    | setF F =>
      simp only []
      have hk0 : (storeFlag s u true).know 0 = s.know 0 := know0_upd hu0 _
      refine { gs := h.gs, pLock := h.pcOut u (.unl F) (by intro G; simp), cd := ?_, fl := ?_, lv := h.lv, ev := h.ev }
      · intro G hG
        show G ∈ ((storeFlag s u true).know 0).done
        rw [hk0]; exact h.cd G hG
      · intro hh
        show s.curFloor ≤ ((storeFlag s u true).know 0).l
        rw [hk0]; exact h.fl hh
    | idle => exact h
    | lockW F => exact h
    | unl F => exact h
    | lvl l => exact h
    | log k lv => exact h
  | unlock t =>
    simp only [step]
    by_cases ht : t = 0
    · subst ht
      simp only [Enabled, enabled, if_true, decide_eq_true_eq] at he
      simp only [if_true]
      have hfull : s.loc = s.glob := hC.csFull (Or.inl he)
      have hD1 : InvD (release p.lock s 0) :=
        { gs := h.gs, pLock := h.pLock, cd := h.cd, fl := h.fl, lv := h.lv, ev := h.ev }
      have hgood := finishGood (s := release p.lock s 0) hD1 hC.pre (h.lv (Or.inr (Or.inr (Or.inr he)))) (by
        intro F hF
        show F ∈ s.loc
        rw [hfull]
        obtain ⟨q, _, hq⟩ := (hB.kT 0).2 F (h.cd F hF)
        exact List.mem_of_getElem? hq)
      exact { gs := h.gs, pLock := h.pLock, cd := h.cd, fl := (by intro hh; cases hh),
              lv := (by intro hh; rcases hh with hh | hh | hh | hh <;> cases hh), ev := hgood }
    · simp only [Enabled, enabled, ht, if_false, Bool.and_eq_true, front_iff] at he
      obtain ⟨⟨ht0, _⟩, _⟩ := he
      simp only [ht, if_false]
      cases hpcv : s.fpc t with
      | unl F =>
        simp only []
        have hk0 : upd (release p.lock s t).know t { (release p.lock s t).know t with done := F :: ((release p.lock s t).know t).done } 0 = s.know 0 :=
          know0_upd ht0 _
        refine { gs := h.gs, pLock := h.pcOut t .idle (by intro G; simp), cd := ?_, fl := ?_, lv := h.lv, ev := h.ev }
        · intro G hG
          show G ∈ (upd (release p.lock s t).know t _ 0).done
          rw [hk0]; exact h.cd G hG
        · intro hh
          show s.curFloor ≤ (upd (release p.lock s t).know t _ 0).l
          rw [hk0]; exact h.fl hh
      | idle => exact h
      | lockW F => exact h
      | setF F => exact h
      | lvl l => exact h
      | log k lv => exact h
  | beginLvl u l =>
    exact { gs := h.gs, pLock := h.pcOut u (.lvl l) (by intro G; simp), cd := h.cd, fl := h.fl, lv := h.lv, ev := h.ev }
  | storeLvl u =>
    simp only [Enabled, enabled, Bool.and_eq_true, front_iff] at he
    obtain ⟨⟨hu0, _⟩, _⟩ := he
    simp only [step]
    cases hpcv : s.fpc u with
    | lvl l =>
      simp only []
      have hk0 : upd s.know u { s.know u with l := s.llen } 0 = s.know 0 := know0_upd hu0 _
      refine { gs := h.gs, pLock := h.pcOut u .idle (by intro G; simp), cd := ?_, fl := ?_, lv := h.lv, ev := h.ev }
      · intro G hG
        show G ∈ (upd s.know u _ 0).done
        rw [hk0]; exact h.cd G hG
      · intro hh
        show s.curFloor ≤ (upd s.know u _ 0).l
        rw [hk0]; exact h.fl hh
    | idle => exact h
    | lockW F => exact h
    | unl F => exact h
    | setF F => exact h
    | log k lv => exact h
  | beginLog u k lv =>
    exact { gs := h.gs, pLock := h.pcOut u (.log k lv) (by intro G; simp), cd := h.cd, fl := h.fl, lv := h.lv, ev := h.ev }
  | logStore u =>
    simp only [step]
    cases hpcv : s.fpc u with
    | log k lv =>
      simp only []
      exact { gs := h.gs, pLock := h.pcOut u .idle (by intro G; simp), cd := h.cd, fl := h.fl, lv := h.lv, ev := h.ev }
    | idle => exact h
    | lockW F => exact h
    | unl F => exact h
    | setF F => exact h
    | lvl l => exact h
  | beginPoll u =>
    exact { gs := h.gs, pLock := h.pLock, cd := h.cd, fl := (by intro hh; cases hh),
            lv := (by intro hh; rcases hh with hh | hh | hh | hh <;> cases hh), ev := h.ev }
  | pollLoad n =>
    simp only [step]
    cases hb : s.bpc with
    | poll u =>
      simp only []
      split
      · split
        · rename_i m hm
          refine { gs := h.gs, pLock := h.pLock, cd := ?_, fl := ?_,
                   lv := (by intro hh; rcases hh with hh | hh | hh | hh <;> cases hh), ev := h.ev }
          · intro G hG
            show G ∈ (upd s.know 0 ((s.know 0).join m.kn) 0).done
            simp only [upd, if_true]; exact hG
          · intro _
            show ((s.know 0).join m.kn).l ≤ (upd s.know 0 ((s.know 0).join m.kn) 0).l
            simp only [upd, if_true]; exact Nat.le_refl _
        · exact h
      · exact { gs := h.gs, pLock := h.pLock, cd := h.cd, fl := (by intro hh; cases hh),
                lv := (by intro hh; rcases hh with hh | hh | hh | hh <;> cases hh), ev := h.ev }
    | idle => exact h
    | lvl => exact h
    | flag => exact h
    | lockW => exact h
    | reset => exact h
    | unl => exact h
  | loadLvl j =>
    simp only [Enabled, enabled, Bool.and_eq_true, decide_eq_true_eq] at he
    obtain ⟨⟨hb, hfl⟩, hjl⟩ := he
    have hfloor : s.curFloor ≤ j := Nat.le_trans (h.fl hb) hfl
    have hcd : ∀ G, G ∈ s.curDone → G ∈ (upd s.know 0 { s.know 0 with l := j } 0).done := by
      intro G hG; simp only [upd, if_true]; exact h.cd G hG
    simp only [step]
    split
    · rename_i hlt
      refine { gs := h.gs, pLock := h.pLock, cd := hcd, fl := (by intro hh; cases hh),
               lv := (by intro hh; rcases hh with hh | hh | hh | hh <;> cases hh), ev := ?_ }
      intro e hee
      have he' : e ∈ _ :: s.evals := hee
      rcases List.mem_cons.mp he' with h1 | h1
      · subst h1
        refine ⟨hfloor, ?_, ?_⟩
        · intro _; exact ⟨hlt, by simp⟩
        · intro hh; cases hh
      · exact h.ev e h1
    · rename_i hge
      refine { gs := h.gs, pLock := h.pLock, cd := hcd, fl := (by intro hh; cases hh), lv := ?_, ev := h.ev }
      intro _
      exact ⟨by show s.lval j ≤ s.curLv; omega, hfloor⟩
  | loadFlag j =>
    simp only [Enabled, enabled, Bool.and_eq_true, decide_eq_true_eq] at he
    obtain ⟨⟨hb, hfl⟩, hjl⟩ := he
    have hlv := h.lv (Or.inl hb)
    have hcd : ∀ G, G ∈ s.curDone → G ∈ (upd s.know 0 { s.know 0 with f := j } 0).done := by
      intro G hG; simp only [upd, if_true]; exact h.cd G hG
    simp only [step]
    split
    · exact { gs := h.gs, pLock := h.pLock, cd := hcd, fl := (by intro hh; cases hh), lv := fun _ => hlv, ev := h.ev }
    · rename_i hv
      have hv' : s.hval j = false := by simpa using hv
      have hnw : ¬ window p s.bpc := by rw [hb]; exact not_window_of_eq (by simp) (by simp)
      have hcov := hC.j3 hnw j hjl hv'
      have hD1 : InvD { s with know := upd s.know 0 { s.know 0 with f := j } } :=
        { gs := h.gs, pLock := h.pLock, cd := hcd, fl := (by intro hh; rw [hb] at hh; cases hh), lv := h.lv, ev := h.ev }
      have hgood := finishGood (s := { s with know := upd s.know 0 { s.know 0 with f := j } }) hD1 hC.pre hlv (by
        intro F hF
        show F ∈ s.loc
        obtain ⟨q, hq1, hq2⟩ := (hB.kT 0).2 F (h.cd F hF)
        have := hB.hmono _ _ hfl hjl
        exact mem_of_prefix hC.pre (by omega) hq2)
      exact { gs := h.gs, pLock := h.pLock, cd := hcd, fl := (by intro hh; cases hh),
              lv := (by intro hh; rcases hh with hh | hh | hh | hh <;> cases hh), ev := hgood }
  | reset =>
    simp only [Enabled, enabled, decide_eq_true_eq] at he
    have hlv := h.lv (Or.inr (Or.inr (Or.inl he)))
    have hcd : ∀ G, G ∈ s.curDone → G ∈ (upd s.know 0 { s.know 0 with f := s.hlen } 0).done := by
      intro G hG; simp only [upd, if_true]; exact h.cd G hG
    simp only [step]
    split
    · exact { gs := h.gs, pLock := h.pLock, cd := hcd, fl := (by intro hh; cases hh), lv := fun _ => hlv, ev := h.ev }
    · exact { gs := h.gs, pLock := h.pLock, cd := hcd, fl := (by intro hh; cases hh), lv := fun _ => hlv, ev := h.ev }
  | tryFail =>
    simp [Enabled, enabled, hnt] at he

end Filt
