import QuillModel.Filt.Model
import QuillModel.Spin.Proofs
/-! Stage A of the invariant of `Filt/Model.lean`: the lock component obeys `Spin.SInv`, the program counters agree with
"who is inside the critical section", and every critical-section access of `_global_filters` is race-free. -/
namespace Filt
open Spin (upd)

theorem raceFree_of_inv {l : Spin.St} {t : Nat} (h : Spin.SInv l) (ht : l.inCS t = true) : raceFree l t = true := by
  unfold raceFree
  simp only [Bool.and_eq_true, decide_eq_true_eq, List.all_eq_true]
  refine ⟨h.holderSees t ht, ?_⟩
  intro u _
  cases hu : l.inCS u with
  | false => simp
  | true => simp [h.excl u t hu ht]

theorem spin_nthreads (o : Spin.Orders) (l : Spin.St) (op : Spin.Op) : (Spin.step o l op).nthreads = l.nthreads := by
  cases op <;> simp only [Spin.step] <;> try split <;> rfl

def FPc.inside (pc : FPc) : Prop := pc.isSetF = true ∨ pc.isUnl = true

structure InvA (s : St) : Prop where
  lk : Spin.SInv s.lock
  nt : 0 < s.lock.nthreads
  bcs : s.lock.inCS 0 = true ↔ (s.bpc = .reset ∨ s.bpc = .unl)
  fcs : ∀ u, 0 < u → (s.lock.inCS u = true ↔ (s.fpc u).inside)
  rc : s.races = 0

theorem initA (n lvl0 : Nat) : InvA (init n lvl0) := by
  refine { lk := Spin.init_inv _, nt := by simp [init], bcs := by simp [init], fcs := by simp [init, FPc.inside, FPc.isSetF, FPc.isUnl], rc := rfl }

/-- the lock is free: nobody is inside -/
theorem InvA.free {s : St} (h : InvA s) (hl : s.lock.locked = false) (t : Nat) : s.lock.inCS t = false := by
  cases ht : s.lock.inCS t with
  | false => rfl
  | true => have := h.lk.lockedIff.mpr ⟨t, ht⟩; rw [hl] at this; exact absurd this (by simp)


/-! ### how `Spin.step` moves `inCS` / `locked` -/
theorem attempt_inCS (o : Spin.Orders) (l : Spin.St) (t : Nat) (hl : l.locked = false) :
    (Spin.step o l (.attempt t)).inCS = upd l.inCS t true ∧ (Spin.step o l (.attempt t)).locked = true := by
  simp [Spin.step, hl]
theorem access_inCS (o : Spin.Orders) (l : Spin.St) (t : Nat) :
    (Spin.step o l (.access t)).inCS = l.inCS ∧ (Spin.step o l (.access t)).locked = l.locked := by
  simp [Spin.step]
theorem unlock_inCS (o : Spin.Orders) (l : Spin.St) (t : Nat) :
    (Spin.step o l (.unlock t)).inCS = upd l.inCS t false ∧ (Spin.step o l (.unlock t)).locked = false := by
  simp [Spin.step]


theorem fcs_both {inCS : Nat → Bool} {fpc : Nat → FPc}
    (h : ∀ v, 0 < v → (inCS v = true ↔ (fpc v).inside)) (u : Nat) (b : Bool) (pc : FPc) (hb : b = true ↔ pc.inside) :
    ∀ v, 0 < v → (upd inCS u b v = true ↔ (upd fpc u pc v).inside) := by
  intro v hv
  simp only [upd]
  by_cases hvu : v = u
  · simp only [hvu, if_true]; exact hb
  · simp only [hvu, if_false]; exact h v hv

theorem fcs_pc {inCS : Nat → Bool} {fpc : Nat → FPc}
    (h : ∀ v, 0 < v → (inCS v = true ↔ (fpc v).inside)) (u : Nat) (pc : FPc) (hb : inCS u = true ↔ pc.inside) :
    ∀ v, 0 < v → (inCS v = true ↔ (upd fpc u pc v).inside) := by
  intro v hv
  simp only [upd]
  by_cases hvu : v = u
  · simp only [hvu, if_true]; exact hb
  · simp only [hvu, if_false]; exact h v hv

theorem fcs_zero {inCS : Nat → Bool} {fpc : Nat → FPc}
    (h : ∀ v, 0 < v → (inCS v = true ↔ (fpc v).inside)) (b : Bool) :
    ∀ v, 0 < v → (upd inCS 0 b v = true ↔ (fpc v).inside) := by
  intro v hv
  simp only [upd]
  have : v ≠ 0 := by omega
  simp only [this, if_false]; exact h v hv

theorem bcs_other {inCS : Nat → Bool} (u : Nat) (hu : 0 < u) (b : Bool) : upd inCS u b 0 = inCS 0 := by
  simp only [upd]; have : (0 : Nat) ≠ u := by omega
  simp [this]

theorem front_iff {s : St} {u : Nat} : front s u = true ↔ (0 < u ∧ u < s.lock.nthreads) := by
  simp [front]

/-- the frontend `t` takes the free lock and touches `_global_filters` -/
theorem acquireTouchA (o : Spin.Orders) (ho : Spin.OrdersOK o) (s : St) (t : Nat) (h : InvA s)
    (htn : t < s.lock.nthreads) (hl : s.lock.locked = false) :
    let s1 := touch o (acquire o s t) t
    Spin.SInv s1.lock ∧ s1.lock.inCS = upd s.lock.inCS t true ∧ s1.races = 0 ∧ s1.lock.nthreads = s.lock.nthreads ∧
      s1.lock.locked = true := by
  have hfree := h.free hl t
  have e1 : Spin.Enabled s.lock (.attempt t) := ⟨htn, hfree⟩
  have i1 := Spin.step_inv o ho s.lock (.attempt t) h.lk e1
  obtain ⟨a1, a2⟩ := attempt_inCS o s.lock t hl
  have hin : (Spin.step o s.lock (.attempt t)).inCS t = true := by rw [a1]; simp [upd]
  have e2 : Spin.Enabled (Spin.step o s.lock (.attempt t)) (.access t) := ⟨by rw [spin_nthreads]; exact htn, hin⟩
  have i2 := Spin.step_inv o ho _ (.access t) i1 e2
  obtain ⟨b1, b2⟩ := access_inCS o (Spin.step o s.lock (.attempt t)) t
  refine ⟨i2, ?_, ?_, ?_, ?_⟩
  · show (Spin.step o (Spin.step o s.lock (.attempt t)) (.access t)).inCS = _
    rw [b1, a1]
  · show (if raceFree (Spin.step o s.lock (.attempt t)) t then s.races else s.races + 1) = 0
    rw [raceFree_of_inv i1 hin]; exact h.rc
  · show (Spin.step o (Spin.step o s.lock (.attempt t)) (.access t)).nthreads = _
    rw [spin_nthreads, spin_nthreads]
  · show (Spin.step o (Spin.step o s.lock (.attempt t)) (.access t)).locked = true
    rw [b2, a2]

theorem stepA (p : Params) (ho : Spin.OrdersOK p.lock) (hnt : p.tryLock = false) (s : St) (op : Op)
    (h : InvA s) (he : Enabled p s op) : InvA (step p s op) := by
  cases op with
  | beginAdd u F =>
    simp only [Enabled, enabled, Bool.and_eq_true, decide_eq_true_eq, front_iff] at he
    obtain ⟨⟨hu0, _⟩, hidle⟩ := he
    refine { lk := h.lk, nt := h.nt, bcs := h.bcs, fcs := ?_, rc := h.rc }
    have hb := h.fcs u hu0
    rw [hidle] at hb
    exact fcs_pc h.fcs u _ (by simpa [FPc.inside, FPc.isSetF, FPc.isUnl] using hb)
  | spin t => exact h
  | xchg t =>
    simp only [step]
    by_cases ht : t = 0
    · subst ht
      simp only [Enabled, enabled, if_true, decide_eq_true_eq] at he
      simp only [if_true, hnt]
      by_cases hl : s.lock.locked = true
      · simp only [hl, if_true]; exact h
      · have hl' : s.lock.locked = false := by simpa using hl
        simp only [hl', Bool.false_eq_true, if_false]
        have hfree := h.free hl' 0
        have e1 : Spin.Enabled s.lock (.attempt 0) := ⟨h.nt, hfree⟩
        have i1 := Spin.step_inv p.lock ho s.lock (.attempt 0) h.lk e1
        obtain ⟨a1, a2⟩ := attempt_inCS p.lock s.lock 0 hl'
        have hin : (Spin.step p.lock s.lock (.attempt 0)).inCS 0 = true := by rw [a1]; simp [upd]
        by_cases hr : p.resetBeforeCopy = true
        · simp only [hr, if_true]
          refine { lk := i1, nt := by show 0 < (Spin.step p.lock s.lock (.attempt 0)).nthreads; rw [spin_nthreads]; exact h.nt,
                   bcs := ?_, fcs := ?_, rc := h.rc }
          · show (Spin.step p.lock s.lock (.attempt 0)).inCS 0 = true ↔ _
            simp [hin]
          · show ∀ u, 0 < u → ((Spin.step p.lock s.lock (.attempt 0)).inCS u = true ↔ _)
            rw [a1]; exact fcs_zero h.fcs true
        · have hr' : p.resetBeforeCopy = false := by simpa using hr
          simp only [hr', Bool.false_eq_true, if_false]
          obtain ⟨i2, c1, c2, c3, _⟩ := acquireTouchA p.lock ho s 0 h h.nt hl'
          refine { lk := i2, nt := by show 0 < (touch p.lock (acquire p.lock s 0) 0).lock.nthreads; rw [c3]; exact h.nt,
                   bcs := ?_, fcs := ?_, rc := c2 }
          · show (touch p.lock (acquire p.lock s 0) 0).lock.inCS 0 = true ↔ _
            rw [c1]; simp [upd]
          · show ∀ u, 0 < u → ((touch p.lock (acquire p.lock s 0) 0).lock.inCS u = true ↔ _)
            rw [c1]; exact fcs_zero h.fcs true
    · simp only [Enabled, enabled, ht, if_false, Bool.and_eq_true, front_iff] at he
      obtain ⟨⟨ht0, htn⟩, hpc⟩ := he
      simp only [ht, if_false]
      cases hpcv : s.fpc t with
      | lockW F =>
        simp only []
        by_cases hl : s.lock.locked = true
        · simp only [hl, if_true]; exact h
        · have hl' : s.lock.locked = false := by simpa using hl
          simp only [hl', Bool.false_eq_true, if_false]
          obtain ⟨i2, c1, c2, c3, _⟩ := acquireTouchA p.lock ho s t h htn hl'
          refine { lk := i2, nt := by show 0 < (touch p.lock (acquire p.lock s t) t).lock.nthreads; rw [c3]; exact h.nt,
                   bcs := ?_, fcs := ?_, rc := c2 }
          · show (touch p.lock (acquire p.lock s t) t).lock.inCS 0 = true ↔ _
            rw [c1, bcs_other t ht0]; exact h.bcs
          · show ∀ u, 0 < u → ((touch p.lock (acquire p.lock s t) t).lock.inCS u = true ↔ (upd s.fpc t (.setF F) u).inside)
            rw [c1]; exact fcs_both h.fcs t true _ (by simp [FPc.inside, FPc.isSetF])
      | idle => exact h
      | setF F => exact h
      | unl F => exact h
      | lvl l => exact h
      | log k lv => exact h
  | setFlag u =>
    simp only [Enabled, enabled, Bool.and_eq_true, front_iff] at he
    obtain ⟨⟨hu0, _⟩, hpc⟩ := he
    simp only [step]
    cases hpcv : s.fpc u with
    | setF F =>
      simp only []
      refine { lk := h.lk, nt := h.nt, bcs := h.bcs, fcs := ?_, rc := h.rc }
      have hb := h.fcs u hu0
      rw [hpcv] at hb
      exact fcs_pc h.fcs u _ (by simpa [FPc.inside, FPc.isSetF, FPc.isUnl] using hb)
    | idle => exact h
    | lockW F => exact h
    | unl F => exact h
    | lvl l => exact h
    | log k lv => exact h
  | unlock t =>
    simp only [step]
    by_cases ht : t = 0
    · subst ht
      simp only [Enabled, enabled, if_true, decide_eq_true_eq] at he
      simp only [if_true]
      have hin : s.lock.inCS 0 = true := h.bcs.mpr (Or.inr he)
      have e1 : Spin.Enabled s.lock (.unlock 0) := ⟨h.nt, hin⟩
      have i1 := Spin.step_inv p.lock ho s.lock (.unlock 0) h.lk e1
      obtain ⟨a1, _⟩ := unlock_inCS p.lock s.lock 0
      refine { lk := i1, nt := by show 0 < (Spin.step p.lock s.lock (.unlock 0)).nthreads; rw [spin_nthreads]; exact h.nt,
               bcs := ?_, fcs := ?_, rc := h.rc }
      · show (Spin.step p.lock s.lock (.unlock 0)).inCS 0 = true ↔ _
        rw [a1]; simp [upd, finish]
      · show ∀ u, 0 < u → ((Spin.step p.lock s.lock (.unlock 0)).inCS u = true ↔ _)
        rw [a1]; exact fcs_zero h.fcs false
    · simp only [Enabled, enabled, ht, if_false, Bool.and_eq_true, front_iff] at he
      obtain ⟨⟨ht0, htn⟩, hpc⟩ := he
      simp only [ht, if_false]
      cases hpcv : s.fpc t with
      | unl F =>
        simp only []
        have hin : s.lock.inCS t = true := (h.fcs t ht0).mpr (by rw [hpcv]; simp [FPc.inside, FPc.isUnl])
        have e1 : Spin.Enabled s.lock (.unlock t) := ⟨htn, hin⟩
        have i1 := Spin.step_inv p.lock ho s.lock (.unlock t) h.lk e1
        obtain ⟨a1, _⟩ := unlock_inCS p.lock s.lock t
        refine { lk := i1, nt := by show 0 < (Spin.step p.lock s.lock (.unlock t)).nthreads; rw [spin_nthreads]; exact h.nt,
                 bcs := ?_, fcs := ?_, rc := h.rc }
        · show (Spin.step p.lock s.lock (.unlock t)).inCS 0 = true ↔ _
          rw [a1, bcs_other t ht0]; exact h.bcs
        · show ∀ u, 0 < u → ((Spin.step p.lock s.lock (.unlock t)).inCS u = true ↔ (upd s.fpc t .idle u).inside)
          rw [a1]; exact fcs_both h.fcs t false _ (by simp [FPc.inside, FPc.isSetF, FPc.isUnl])
      | idle => exact h
      | lockW F => exact h
      | setF F => exact h
      | lvl l => exact h
      | log k lv => exact h
  | beginLvl u l =>
    simp only [Enabled, enabled, Bool.and_eq_true, decide_eq_true_eq, front_iff] at he
    obtain ⟨⟨hu0, _⟩, hidle⟩ := he
    refine { lk := h.lk, nt := h.nt, bcs := h.bcs, fcs := ?_, rc := h.rc }
    have hb := h.fcs u hu0
    rw [hidle] at hb
    exact fcs_pc h.fcs u _ (by simpa [FPc.inside, FPc.isSetF, FPc.isUnl] using hb)
  | storeLvl u =>
    simp only [Enabled, enabled, Bool.and_eq_true, front_iff] at he
    obtain ⟨⟨hu0, _⟩, hpc⟩ := he
    simp only [step]
    cases hpcv : s.fpc u with
    | lvl l =>
      simp only []
      refine { lk := h.lk, nt := h.nt, bcs := h.bcs, fcs := ?_, rc := h.rc }
      have hb := h.fcs u hu0
      rw [hpcv] at hb
      exact fcs_pc h.fcs u _ (by simpa [FPc.inside, FPc.isSetF, FPc.isUnl] using hb)
    | idle => exact h
    | lockW F => exact h
    | unl F => exact h
    | setF F => exact h
    | log k lv => exact h
  | beginLog u k lv =>
    simp only [Enabled, enabled, Bool.and_eq_true, decide_eq_true_eq, front_iff] at he
    obtain ⟨⟨hu0, _⟩, hidle⟩ := he
    refine { lk := h.lk, nt := h.nt, bcs := h.bcs, fcs := ?_, rc := h.rc }
    have hb := h.fcs u hu0
    rw [hidle] at hb
    exact fcs_pc h.fcs u _ (by simpa [FPc.inside, FPc.isSetF, FPc.isUnl] using hb)
  | logStore u =>
    simp only [Enabled, enabled, Bool.and_eq_true, front_iff] at he
    obtain ⟨⟨hu0, _⟩, hpc⟩ := he
    simp only [step]
    cases hpcv : s.fpc u with
    | log k lv =>
      simp only []
      refine { lk := h.lk, nt := h.nt, bcs := h.bcs, fcs := ?_, rc := h.rc }
      have hb := h.fcs u hu0
      rw [hpcv] at hb
      exact fcs_pc h.fcs u _ (by simpa [FPc.inside, FPc.isSetF, FPc.isUnl] using hb)
    | idle => exact h
    | lockW F => exact h
    | unl F => exact h
    | setF F => exact h
    | lvl l => exact h
  | beginPoll u =>
    simp only [Enabled, enabled, Bool.and_eq_true, decide_eq_true_eq] at he
    refine { lk := h.lk, nt := h.nt, bcs := ?_, fcs := h.fcs, rc := h.rc }
    have := h.bcs
    rw [he.2] at this
    show s.lock.inCS 0 = true ↔ (BPc.poll u = .reset ∨ BPc.poll u = .unl)
    simpa using this
  | pollLoad n =>
    simp only [step]
    cases hb : s.bpc with
    | poll u =>
      simp only []
      have hcs : ¬ s.lock.inCS 0 = true := by
        intro hc; have := h.bcs.mp hc; rw [hb] at this; simp at this
      split
      · split
        · refine { lk := h.lk, nt := h.nt, bcs := ?_, fcs := h.fcs, rc := h.rc }
          show s.lock.inCS 0 = true ↔ _
          simp [hcs]
        · exact h
      · refine { lk := h.lk, nt := h.nt, bcs := ?_, fcs := h.fcs, rc := h.rc }
        show s.lock.inCS 0 = true ↔ _
        simp [hcs]
    | idle => exact h
    | lvl => exact h
    | flag => exact h
    | lockW => exact h
    | reset => exact h
    | unl => exact h
  | loadLvl j =>
    simp only [Enabled, enabled, Bool.and_eq_true, decide_eq_true_eq] at he
    have hcs : ¬ s.lock.inCS 0 = true := by
      intro hc; have := h.bcs.mp hc; rw [he.1.1] at this; simp at this
    simp only [step]
    split
    · refine { lk := h.lk, nt := h.nt, bcs := ?_, fcs := h.fcs, rc := h.rc }
      show s.lock.inCS 0 = true ↔ _
      simp [hcs, finish]
    · refine { lk := h.lk, nt := h.nt, bcs := ?_, fcs := h.fcs, rc := h.rc }
      show s.lock.inCS 0 = true ↔ _
      simp [hcs]
  | loadFlag j =>
    simp only [Enabled, enabled, Bool.and_eq_true, decide_eq_true_eq] at he
    have hcs : ¬ s.lock.inCS 0 = true := by
      intro hc; have := h.bcs.mp hc; rw [he.1.1] at this; simp at this
    simp only [step]
    split
    · refine { lk := h.lk, nt := h.nt, bcs := ?_, fcs := h.fcs, rc := h.rc }
      show s.lock.inCS 0 = true ↔ _
      simp [hcs]
    · refine { lk := h.lk, nt := h.nt, bcs := ?_, fcs := h.fcs, rc := h.rc }
      show s.lock.inCS 0 = true ↔ _
      simp [hcs, finish]
  | reset =>
    simp only [Enabled, enabled, decide_eq_true_eq] at he
    have hin : s.lock.inCS 0 = true := h.bcs.mpr (Or.inl he)
    simp only [step]
    split
    · have e2 : Spin.Enabled s.lock (.access 0) := ⟨h.nt, hin⟩
      have i2 := Spin.step_inv p.lock ho _ (.access 0) h.lk e2
      obtain ⟨b1, _⟩ := access_inCS p.lock s.lock 0
      refine { lk := i2, nt := by show 0 < (Spin.step p.lock s.lock (.access 0)).nthreads; rw [spin_nthreads]; exact h.nt,
               bcs := ?_, fcs := ?_, rc := ?_ }
      · show (Spin.step p.lock s.lock (.access 0)).inCS 0 = true ↔ (BPc.unl = .reset ∨ BPc.unl = .unl)
        rw [b1]; simp [hin]
      · show ∀ u, 0 < u → ((Spin.step p.lock s.lock (.access 0)).inCS u = true ↔ (s.fpc u).inside)
        rw [b1]; exact h.fcs
      · show (if raceFree s.lock 0 then s.races else s.races + 1) = 0
        rw [raceFree_of_inv h.lk hin]; exact h.rc
    · refine { lk := h.lk, nt := h.nt, bcs := ?_, fcs := h.fcs, rc := h.rc }
      show s.lock.inCS 0 = true ↔ (BPc.unl = .reset ∨ BPc.unl = .unl)
      simp [hin]
  | tryFail =>
    simp [Enabled, enabled, hnt] at he

end Filt
