import QuillModel.Filt.ProofsA
import QuillModel.Filt.ProofsB
/-! Stage C of the invariant of `Filt/Model.lean`: `_local_filters` is a prefix of `_global_filters`, and — outside the
window between `_local_filters.clear()` and the copy — it covers every reset of `_new_filter`: a `false` in the flag's
history was stored by the backend inside a critical section whose copy contained everything pushed before that store. -/
namespace Filt
open Spin (upd)

def window (p : Params) (b : BPc) : Prop := b = .lockW ∨ (b = .reset ∧ p.resetBeforeCopy = true)

structure InvC (p : Params) (s : St) : Prop where
  pre : s.loc <+: s.glob
  j3 : ¬ window p s.bpc → ∀ j, j < s.hlen → s.hval j = false → s.hcov j ≤ s.loc.length
  csFull : (s.bpc = .unl ∨ (s.bpc = .reset ∧ p.resetBeforeCopy = false)) → s.loc = s.glob

theorem initC (p : Params) (n lvl0 : Nat) : InvC p (init n lvl0) := by
  refine { pre := by simp [init], j3 := by intros; simp [init], csFull := by simp [init] }

/-- a step that changes none of `loc glob hlen hval hcov` and moves the backend between two program counters outside the
window and outside the critical section -/
theorem InvC.frame {p : Params} {s s' : St} (h : InvC p s)
    (e1 : s'.loc = s.loc) (e2 : s'.glob = s.glob) (e3 : s'.hlen = s.hlen) (e4 : s'.hval = s.hval) (e5 : s'.hcov = s.hcov)
    (hw : ¬ window p s'.bpc → ¬ window p s.bpc)
    (hc : (s'.bpc = .unl ∨ (s'.bpc = .reset ∧ p.resetBeforeCopy = false)) → (s.bpc = .unl ∨ (s.bpc = .reset ∧ p.resetBeforeCopy = false))) :
    InvC p s' := by
  refine { pre := by rw [e1, e2]; exact h.pre, j3 := ?_, csFull := ?_ }
  · intro hnw; rw [e1, e3, e4, e5]; exact h.j3 (hw hnw)
  · intro hh; rw [e1, e2]; exact h.csFull (hc hh)

theorem not_window_of_eq {p : Params} {b : BPc} (h1 : b ≠ .lockW) (h2 : b ≠ .reset) : ¬ window p b := by
  intro h; rcases h with h | ⟨h, _⟩
  · exact h1 h
  · exact h2 h

theorem stepC (p : Params) (hnt : p.tryLock = false) (s : St) (op : Op)
    (hA : InvA s) (hB : InvB s) (h : InvC p s) (he : Enabled p s op) : InvC p (step p s op) := by
  cases op with
  | beginAdd u F => exact h.frame rfl rfl rfl rfl rfl id id
  | spin t => exact h
  | xchg t =>
    simp only [step]
    by_cases ht : t = 0
    · subst ht
      simp only [Enabled, enabled, if_true, decide_eq_true_eq] at he
      simp only [if_true, hnt]
      by_cases hl : s.lock.locked = true
      · simp only [hl, if_true]; exact h
      · have hl' : s.lock.locked = false := by simpa using hl
        simp only [hl', Bool.false_eq_true, if_false]
        by_cases hr : p.resetBeforeCopy = true
        · simp only [hr, if_true]
          refine { pre := h.pre, j3 := ?_, csFull := ?_ }
          · intro hnw; exact absurd (Or.inr ⟨rfl, hr⟩) hnw
          · intro hh
            rcases hh with hh | ⟨_, hh⟩
            · cases hh
            · rw [hr] at hh; cases hh
        · have hr' : p.resetBeforeCopy = false := by simpa using hr
          simp only [hr', Bool.false_eq_true, if_false]
          refine { pre := ?_, j3 := ?_, csFull := ?_ }
          · show s.glob <+: s.glob
            exact List.prefix_refl _
          · intro _ j hj hv
            show s.hcov j ≤ s.glob.length
            exact hB.hbound j hj
          · intro _; rfl
    · simp only [Enabled, enabled, ht, if_false, Bool.and_eq_true, front_iff] at he
      simp only [ht, if_false]
      cases hpcv : s.fpc t with
      | lockW F =>
        simp only []
        by_cases hl : s.lock.locked = true
        · simp only [hl, if_true]; exact h
        · have hl' : s.lock.locked = false := by simpa using hl
          simp only [hl', Bool.false_eq_true, if_false]
          have hfree := hA.free hl' 0
          refine { pre := ?_, j3 := ?_, csFull := ?_ }
          · show s.loc <+: s.glob ++ [F]
            exact List.IsPrefix.trans h.pre (List.prefix_append _ _)
          · exact h.j3
          · intro hh
            have : s.lock.inCS 0 = true := hA.bcs.mpr (by
              rcases hh with hh | ⟨hh, _⟩
              · exact Or.inr hh
              · exact Or.inl hh)
            rw [hfree] at this; cases this
      | idle => exact h
      | setF F => exact h
      | unl F => exact h
      | lvl l => exact h
      | log k lv => exact h
  | setFlag u =>
    simp only [step]
    cases hpcv : s.fpc u with
    | setF F =>
      simp only []
      refine { pre := h.pre, j3 := ?_, csFull := h.csFull }
      intro hnw j hj hv
      have hj' : j < s.hlen + 1 := hj
      have hv' : upd s.hval s.hlen true j = false := hv
      show upd s.hcov s.hlen s.glob.length j ≤ s.loc.length
      simp only [upd] at hv' ⊢
      by_cases hjl : j = s.hlen
      · simp [hjl] at hv'
      · simp only [hjl, if_false] at hv' ⊢
        exact h.j3 hnw j (by omega) hv'
    | idle => exact h
    | lockW F => exact h
    | unl F => exact h
    | lvl l => exact h
    | log k lv => exact h
  | unlock t =>
    simp only [step]
    by_cases ht : t = 0
    · subst ht
      simp only [Enabled, enabled, if_true, decide_eq_true_eq] at he
      simp only [if_true]
      refine { pre := h.pre, j3 := ?_, csFull := ?_ }
      · intro _
        exact h.j3 (by rw [he]; exact not_window_of_eq (by simp) (by simp))
      · intro hh
        rcases hh with hh | ⟨hh, _⟩ <;> cases hh
    · simp only [ht, if_false]
      cases hpcv : s.fpc t with
      | unl F => simp only []; exact h.frame rfl rfl rfl rfl rfl id id
      | idle => exact h
      | lockW F => exact h
      | setF F => exact h
      | lvl l => exact h
      | log k lv => exact h
  | beginLvl u l => exact h.frame rfl rfl rfl rfl rfl id id
  | storeLvl u =>
    simp only [step]
    cases hpcv : s.fpc u with
    | lvl l => simp only []; exact h.frame rfl rfl rfl rfl rfl id id
    | idle => exact h
    | lockW F => exact h
    | unl F => exact h
    | setF F => exact h
    | log k lv => exact h
  | beginLog u k lv => exact h.frame rfl rfl rfl rfl rfl id id
  | logStore u =>
    simp only [step]
    cases hpcv : s.fpc u with
    | log k lv => simp only []; exact h.frame rfl rfl rfl rfl rfl id id
    | idle => exact h
    | lockW F => exact h
    | unl F => exact h
    | setF F => exact h
    | lvl l => exact h
  | beginPoll u =>
    simp only [Enabled, enabled, Bool.and_eq_true, decide_eq_true_eq] at he
    refine h.frame rfl rfl rfl rfl rfl (fun _ => by rw [he.2]; exact not_window_of_eq (by simp) (by simp)) ?_
    intro hh
    rcases hh with hh | ⟨hh, _⟩ <;> cases hh
  | pollLoad n =>
    simp only [step]
    cases hb : s.bpc with
    | poll u =>
      simp only []
      have hnw : ¬ window p s.bpc := by rw [hb]; exact not_window_of_eq (by simp) (by simp)
      split
      · split
        · refine h.frame rfl rfl rfl rfl rfl (fun _ => hnw) ?_
          intro hh
          rcases hh with hh | ⟨hh, _⟩ <;> cases hh
        · exact h
      · refine h.frame rfl rfl rfl rfl rfl (fun _ => hnw) ?_
        intro hh
        rcases hh with hh | ⟨hh, _⟩ <;> cases hh
    | idle => exact h
    | lvl => exact h
    | flag => exact h
    | lockW => exact h
    | reset => exact h
    | unl => exact h
  | loadLvl j =>
    simp only [Enabled, enabled, Bool.and_eq_true, decide_eq_true_eq] at he
    have hnw : ¬ window p s.bpc := by rw [he.1.1]; exact not_window_of_eq (by simp) (by simp)
    simp only [step]
    split
    · refine h.frame rfl rfl rfl rfl rfl (fun _ => hnw) ?_
      intro hh
      rcases hh with hh | ⟨hh, _⟩ <;> cases hh
    · refine h.frame rfl rfl rfl rfl rfl (fun _ => hnw) ?_
      intro hh
      rcases hh with hh | ⟨hh, _⟩ <;> cases hh
  | loadFlag j =>
    simp only [Enabled, enabled, Bool.and_eq_true, decide_eq_true_eq] at he
    have hnw : ¬ window p s.bpc := by rw [he.1.1]; exact not_window_of_eq (by simp) (by simp)
    simp only [step]
    split
    · refine { pre := ?_, j3 := ?_, csFull := ?_ }
      · show [] <+: s.glob
        exact List.nil_prefix
      · intro hh; exact absurd (Or.inl rfl) hh
      · intro hh
        rcases hh with hh | ⟨hh, _⟩ <;> cases hh
    · refine h.frame rfl rfl rfl rfl rfl (fun _ => hnw) ?_
      intro hh
      rcases hh with hh | ⟨hh, _⟩ <;> cases hh
  | reset =>
    simp only [Enabled, enabled, decide_eq_true_eq] at he
    obtain ⟨_, a2, _⟩ := hB.storeFlag 0 false
    simp only [step]
    split
    · refine { pre := ?_, j3 := ?_, csFull := ?_ }
      · show s.glob <+: s.glob
        exact List.prefix_refl _
      · intro _ j hj _
        exact a2 j hj
      · intro _; rfl
    · rename_i hr
      have hr' : p.resetBeforeCopy = false := by simpa using hr
      have hfull : s.loc = s.glob := h.csFull (Or.inr ⟨he, hr'⟩)
      refine { pre := h.pre, j3 := ?_, csFull := ?_ }
      · intro _ j hj _
        have := a2 j hj
        show upd s.hcov s.hlen s.glob.length j ≤ s.loc.length
        rw [hfull]; exact this
      · intro _; exact hfull
  | tryFail =>
    simp [Enabled, enabled, hnt] at he

end Filt
