import QuillModel.Filt.Model
/-! Stage B of the invariant of `Filt/Model.lean`: what a piece of knowledge guarantees.
`hcov j` (length of `_global_filters` when store `j` of `_new_filter` was made) is monotone in `j`; whoever knows that
`add_filter(F)` has returned (`F ∈ K.done`) also has a `_new_filter` floor `K.f` whose store was made when `F` was already
in `_global_filters` (`Cov`). This is the content of "the flag is set inside the critical section, after the push" plus
"knowledge only travels along release/acquire edges". -/
namespace Filt
open Spin (upd)

def CovC (hcov : Nat → Nat) (glob : List Nat) (j F : Nat) : Prop := ∃ q, q < hcov j ∧ glob[q]? = some F
def KOkC (hlen : Nat) (hcov : Nat → Nat) (glob : List Nat) (K : Know) : Prop :=
  K.f < hlen ∧ ∀ F, F ∈ K.done → CovC hcov glob K.f F

def Cov (s : St) (j F : Nat) : Prop := CovC s.hcov s.glob j F
def KOk (s : St) (K : Know) : Prop := KOkC s.hlen s.hcov s.glob K

theorem CovC.push {hcov glob j F} (G : Nat) (h : CovC hcov glob j F) : CovC hcov (glob ++ [G]) j F := by
  obtain ⟨q, h1, h2⟩ := h
  refine ⟨q, h1, ?_⟩
  have hq : q < glob.length := by
    have := List.getElem?_eq_some_iff.mp h2; exact this.1
  rw [List.getElem?_append_left hq]; exact h2

theorem KOkC.push {hlen hcov glob K} (G : Nat) (h : KOkC hlen hcov glob K) : KOkC hlen hcov (glob ++ [G]) K :=
  ⟨h.1, fun F hF => (h.2 F hF).push G⟩

theorem CovC.store {hcov glob j F} (n c : Nat) (hj : j < n) (h : CovC hcov glob j F) : CovC (upd hcov n c) glob j F := by
  obtain ⟨q, h1, h2⟩ := h
  refine ⟨q, ?_, h2⟩
  simp only [upd]; have : j ≠ n := by omega
  simpa [this] using h1

theorem KOkC.store {hlen hcov glob K} (c : Nat) (h : KOkC hlen hcov glob K) : KOkC (hlen + 1) (upd hcov hlen c) glob K :=
  ⟨Nat.lt_succ_of_lt h.1, fun F hF => (h.2 F hF).store hlen c h.1⟩

theorem CovC.mono {hcov glob i j F} (hm : hcov i ≤ hcov j) (h : CovC hcov glob i F) : CovC hcov glob j F := by
  obtain ⟨q, h1, h2⟩ := h
  exact ⟨q, by omega, h2⟩

theorem KOkC.raise {hlen hcov glob} {K : Know} (hmono : ∀ i j, i ≤ j → j < hlen → hcov i ≤ hcov j) (j : Nat)
    (h : KOkC hlen hcov glob K) (h1 : K.f ≤ j) (h2 : j < hlen) : KOkC hlen hcov glob { K with f := j } :=
  ⟨h2, fun F hF => (h.2 F hF).mono (hmono _ _ h1 h2)⟩

theorem KOkC.join {hlen hcov glob} {a b : Know} (hmono : ∀ i j, i ≤ j → j < hlen → hcov i ≤ hcov j)
    (ha : KOkC hlen hcov glob a) (hb : KOkC hlen hcov glob b) : KOkC hlen hcov glob (a.join b) := by
  have hf : (a.join b).f = max a.f b.f := rfl
  have hlt : max a.f b.f < hlen := by have := ha.1; have := hb.1; omega
  refine ⟨by rw [hf]; exact hlt, ?_⟩
  intro F hF
  rw [hf]
  have hF' : F ∈ a.done ++ b.done := hF
  rcases List.mem_append.mp hF' with h | h
  · exact (ha.2 F h).mono (hmono _ _ (by omega) hlt)
  · exact (hb.2 F h).mono (hmono _ _ (by omega) hlt)

/-- the writer of a new store of `_new_filter` -/
theorem KOkC.own {hlen hcov glob} {K : Know} (hbound : ∀ j, j < hlen → hcov j ≤ glob.length)
    (h : KOkC hlen hcov glob K) : KOkC (hlen + 1) (upd hcov hlen glob.length) glob { K with f := hlen } := by
  refine ⟨Nat.lt_succ_self _, ?_⟩
  intro F hF
  obtain ⟨q, h1, h2⟩ := h.2 F hF
  refine ⟨q, ?_, h2⟩
  have := hbound _ h.1
  simp only [upd, if_true]; omega

theorem KOkC.addDone {hlen hcov glob} {K : Know} (F : Nat) (h : KOkC hlen hcov glob K) (hc : CovC hcov glob K.f F) :
    KOkC hlen hcov glob { K with done := F :: K.done } := by
  refine ⟨h.1, ?_⟩
  intro G hG
  have hG' : G ∈ F :: K.done := hG
  rcases List.mem_cons.mp hG' with h1 | h1
  · subst h1; exact hc
  · exact h.2 G h1

theorem KOkC.bot {hlen hcov glob} (h : 0 < hlen) : KOkC hlen hcov glob {} :=
  ⟨h, fun F hF => by cases hF⟩

structure InvB (s : St) : Prop where
  hmono : ∀ i j, i ≤ j → j < s.hlen → s.hcov i ≤ s.hcov j
  hbound : ∀ j, j < s.hlen → s.hcov j ≤ s.glob.length
  kT : ∀ t, KOk s (s.know t)
  kL : KOk s s.lockK
  kQ : ∀ u m, m ∈ s.queue u → KOk s m.kn
  pSet : ∀ u F, s.fpc u = .setF F → F ∈ s.glob
  pUnl : ∀ u F, s.fpc u = .unl F → Cov s (s.know u).f F

theorem initB (n lvl0 : Nat) : InvB (init n lvl0) := by
  refine { hmono := by intros; simp [init], hbound := by intros; simp [init], kT := ?_, kL := ?_, kQ := ?_, pSet := ?_, pUnl := ?_ }
  · intro t; exact KOkC.bot (by simp [init])
  · exact KOkC.bot (by simp [init])
  · intro u m hm; simp [init] at hm
  · intro u F hf; simp [init] at hf
  · intro u F hf; simp [init] at hf

theorem InvB.hpos {s : St} (h : InvB s) : 0 < s.hlen := by have := h.kL.1; omega

/-- a thread moves to a program counter that is neither `setF` nor `unl`: the pc clauses survive -/
theorem InvB.pcOut {s : St} (h : InvB s) (u : Nat) (pc : FPc) (h1 : ∀ F, pc ≠ .setF F) (h2 : ∀ F, pc ≠ .unl F) :
    (∀ v F, upd s.fpc u pc v = .setF F → F ∈ s.glob) ∧ (∀ v F, upd s.fpc u pc v = .unl F → Cov s (s.know v).f F) := by
  constructor
  · intro v F hv
    simp only [upd] at hv
    by_cases hvu : v = u
    · simp only [hvu, if_true] at hv; exact absurd hv (h1 F)
    · simp only [hvu, if_false] at hv; exact h.pSet v F hv
  · intro v F hv
    simp only [upd] at hv
    by_cases hvu : v = u
    · simp only [hvu, if_true] at hv; exact absurd hv (h2 F)
    · simp only [hvu, if_false] at hv; exact h.pUnl v F hv

/-- `finish` touches nothing stage B talks about -/
theorem InvB.finish {s : St} (h : InvB s) (r : Bool) : InvB (finish s r) :=
  { hmono := h.hmono, hbound := h.hbound, kT := h.kT, kL := h.kL, kQ := h.kQ, pSet := h.pSet, pUnl := h.pUnl }

/-- a successful `exchange`: the acquirer joins the lock's view -/
theorem InvB.acquire {s : St} (h : InvB s) (o : Spin.Orders) (t : Nat) : InvB (acquire o s t) := by
  unfold Filt.acquire
  by_cases ha : o.xchg.isAcq = true
  · simp only [ha, if_true]
    refine { hmono := h.hmono, hbound := h.hbound, kT := ?_, kL := h.kL, kQ := h.kQ, pSet := h.pSet, pUnl := ?_ }
    · intro v
      show KOkC s.hlen s.hcov s.glob (upd s.know t ((s.know t).join s.lockK) v)
      simp only [upd]
      by_cases hvt : v = t
      · simp only [hvt, if_true]; exact KOkC.join h.hmono (h.kT t) h.kL
      · simp only [hvt, if_false]; exact h.kT v
    · intro v F hv
      show CovC s.hcov s.glob (upd s.know t ((s.know t).join s.lockK) v).f F
      simp only [upd]
      by_cases hvt : v = t
      · simp only [hvt, if_true]
        have := h.pUnl v F hv
        rw [hvt] at this
        have hlt : max (s.know t).f s.lockK.f < s.hlen := by have := (h.kT t).1; have := h.kL.1; omega
        exact CovC.mono (h.hmono _ _ (by show (s.know t).f ≤ max (s.know t).f s.lockK.f; omega) hlt) this
      · simp only [hvt, if_false]; exact h.pUnl v F hv
  · have ha' : o.xchg.isAcq = false := by simpa using ha
    simp only [ha', Bool.false_eq_true, if_false]
    exact { hmono := h.hmono, hbound := h.hbound, kT := h.kT, kL := h.kL, kQ := h.kQ, pSet := h.pSet, pUnl := h.pUnl }

theorem InvB.touch {s : St} (h : InvB s) (o : Spin.Orders) (t : Nat) : InvB (touch o s t) :=
  { hmono := h.hmono, hbound := h.hbound, kT := h.kT, kL := h.kL, kQ := h.kQ, pSet := h.pSet, pUnl := h.pUnl }

theorem InvB.release {s : St} (h : InvB s) (o : Spin.Orders) (t : Nat) : InvB (release o s t) := by
  unfold Filt.release
  refine { hmono := h.hmono, hbound := h.hbound, kT := h.kT, kL := ?_, kQ := h.kQ, pSet := h.pSet, pUnl := h.pUnl }
  show KOkC s.hlen s.hcov s.glob (if o.unl.isRel then s.know t else {})
  split
  · exact h.kT t
  · exact KOkC.bot h.hpos

/-- a new store of `_new_filter` by `t` (either value) -/
theorem InvB.storeFlag {s : St} (h : InvB s) (t : Nat) (v : Bool) :
    let s' := storeFlag s t v
    (∀ i j, i ≤ j → j < s'.hlen → s'.hcov i ≤ s'.hcov j) ∧ (∀ j, j < s'.hlen → s'.hcov j ≤ s'.glob.length) ∧
    (∀ w, KOk s' (s'.know w)) ∧ KOk s' s'.lockK ∧ (∀ u m, m ∈ s'.queue u → KOk s' m.kn) ∧
    (∀ u F, u ≠ t → Cov s (s.know u).f F → Cov s' (s'.know u).f F) ∧
    (∀ F, F ∈ s.glob → Cov s' (s'.know t).f F) := by
  refine ⟨?_, ?_, ?_, ?_, ?_, ?_, ?_⟩
  · intro i j hij hj
    show upd s.hcov s.hlen s.glob.length i ≤ upd s.hcov s.hlen s.glob.length j
    have hj' : j < s.hlen + 1 := hj
    simp only [upd]
    by_cases h1 : j = s.hlen
    · simp only [h1, if_true]
      by_cases h2 : i = s.hlen
      · simp [h2]
      · simp only [h2, if_false]; exact h.hbound i (by omega)
    · have h2 : i ≠ s.hlen := by omega
      simp only [h1, h2, if_false]; exact h.hmono i j hij (by omega)
  · intro j hj
    show upd s.hcov s.hlen s.glob.length j ≤ s.glob.length
    have hj' : j < s.hlen + 1 := hj
    simp only [upd]
    by_cases h1 : j = s.hlen
    · simp [h1]
    · simp only [h1, if_false]; exact h.hbound j (by omega)
  · intro w
    show KOkC (s.hlen + 1) (upd s.hcov s.hlen s.glob.length) s.glob (upd s.know t { s.know t with f := s.hlen } w)
    simp only [upd]
    by_cases hw : w = t
    · simp only [hw, if_true]; exact KOkC.own h.hbound (h.kT t)
    · simp only [hw, if_false]; exact (h.kT w).store _
  · exact h.kL.store _
  · intro u m hm; exact (h.kQ u m hm).store _
  · intro u F hu hc
    show CovC (upd s.hcov s.hlen s.glob.length) s.glob (upd s.know t { s.know t with f := s.hlen } u).f F
    simp only [upd, hu, if_false]
    exact CovC.store _ _ (h.kT u).1 hc
  · intro F hF
    show CovC (upd s.hcov s.hlen s.glob.length) s.glob (upd s.know t { s.know t with f := s.hlen } t).f F
    obtain ⟨q, hq⟩ := List.getElem?_of_mem hF
    refine ⟨q, ?_, hq⟩
    have := (List.getElem?_eq_some_iff.mp hq).1
    simp only [upd, if_true]; exact this

theorem stepB (p : Params) (s : St) (op : Op) (h : InvB s) (he : Enabled p s op) : InvB (step p s op) := by
  cases op with
  | beginAdd u F =>
    obtain ⟨a, b⟩ := h.pcOut u (.lockW F) (by intro G; simp) (by intro G; simp)
    exact { hmono := h.hmono, hbound := h.hbound, kT := h.kT, kL := h.kL, kQ := h.kQ, pSet := a, pUnl := b }
  | spin t => exact h
  | xchg t =>
    simp only [step]
    by_cases ht : t = 0
    · subst ht
      simp only [if_true]
      by_cases hl : s.lock.locked = true
      · simp only [hl, if_true]; split
        · exact h.finish true
        · exact h
      · have hl' : s.lock.locked = false := by simpa using hl
        simp only [hl', Bool.false_eq_true, if_false]
        have h1 := h.acquire p.lock 0
        split
        · exact { hmono := h1.hmono, hbound := h1.hbound, kT := h1.kT, kL := h1.kL, kQ := h1.kQ, pSet := h1.pSet, pUnl := h1.pUnl }
        · have h2 := h1.touch p.lock 0
          exact { hmono := h2.hmono, hbound := h2.hbound, kT := h2.kT, kL := h2.kL, kQ := h2.kQ, pSet := h2.pSet, pUnl := h2.pUnl }
    · simp only [ht, if_false]
      cases hpcv : s.fpc t with
      | lockW F =>
        simp only []
        by_cases hl : s.lock.locked = true
        · simp only [hl, if_true]; exact h
        · have hl' : s.lock.locked = false := by simpa using hl
          simp only [hl', Bool.false_eq_true, if_false]
          have h2 := (h.acquire p.lock t).touch p.lock t
          generalize hs1 : touch p.lock (acquire p.lock s t) t = s1 at h2
          have hfpc : s1.fpc = s.fpc := by rw [← hs1]; rfl
          refine { hmono := h2.hmono, hbound := ?_, kT := ?_, kL := h2.kL.push F, kQ := ?_, pSet := ?_, pUnl := ?_ }
          · intro j hj
            have := h2.hbound j hj
            show s1.hcov j ≤ (s1.glob ++ [F]).length
            simp only [List.length_append, List.length_cons, List.length_nil]; omega
          · intro v; exact (h2.kT v).push F
          · intro u m hm; exact (h2.kQ u m hm).push F
          · intro v G hv
            show G ∈ s1.glob ++ [F]
            have hv' : upd s1.fpc t (.setF F) v = .setF G := hv
            simp only [upd] at hv'
            by_cases hvt : v = t
            · simp only [hvt, if_true] at hv'
              have : F = G := by injection hv'
              subst this; simp
            · simp only [hvt, if_false] at hv'
              exact List.mem_append_left _ (h2.pSet v G hv')
          · intro v G hv
            show CovC s1.hcov (s1.glob ++ [F]) (s1.know v).f G
            have hv' : upd s1.fpc t (.setF F) v = .unl G := hv
            simp only [upd] at hv'
            by_cases hvt : v = t
            · simp only [hvt, if_true] at hv'; cases hv'
            · simp only [hvt, if_false] at hv'
              exact (h2.pUnl v G hv').push F
      | idle => exact h
      | setF F => exact h
      | unl F => exact h
      | lvl l => exact h
      | log k lv => exact h
  | setFlag u =>
    simp only [step]
    cases hpcv : s.fpc u with
    | setF F =>
      simp only []
      obtain ⟨a1, a2, a3, a4, a5, a6, a7⟩ := h.storeFlag u true
      refine { hmono := a1, hbound := a2, kT := a3, kL := a4, kQ := a5, pSet := ?_, pUnl := ?_ }
      · intro v G hv
        have hv' : upd s.fpc u (.unl F) v = .setF G := hv
        simp only [upd] at hv'
        by_cases hvu : v = u
        · simp only [hvu, if_true] at hv'; cases hv'
        · simp only [hvu, if_false] at hv'; exact h.pSet v G hv'
      · intro v G hv
        have hv' : upd s.fpc u (.unl F) v = .unl G := hv
        simp only [upd] at hv'
        by_cases hvu : v = u
        · simp only [hvu, if_true] at hv'
          have : F = G := by injection hv'
          subst this; rw [hvu]
          exact a7 F (h.pSet u F hpcv)
        · simp only [hvu, if_false] at hv'
          exact a6 v G hvu (h.pUnl v G hv')
    | idle => exact h
    | lockW F => exact h
    | unl F => exact h
    | lvl l => exact h
    | log k lv => exact h
  | unlock t =>
    simp only [step]
    by_cases ht : t = 0
    · subst ht; simp only [if_true]; exact (h.release p.lock 0).finish true
    · simp only [ht, if_false]
      cases hpcv : s.fpc t with
      | unl F =>
        simp only []
        have h1 := h.release p.lock t
        generalize hs1 : release p.lock s t = s1 at h1
        have hfpc : s1.fpc = s.fpc := by rw [← hs1]; rfl
        have hc : Cov s1 (s1.know t).f F := h1.pUnl t F (by rw [hfpc]; exact hpcv)
        refine { hmono := h1.hmono, hbound := h1.hbound, kT := ?_, kL := h1.kL, kQ := h1.kQ, pSet := ?_, pUnl := ?_ }
        · intro v
          show KOkC s1.hlen s1.hcov s1.glob (upd s1.know t { s1.know t with done := F :: (s1.know t).done } v)
          simp only [upd]
          by_cases hvt : v = t
          · simp only [hvt, if_true]; exact (h1.kT t).addDone F hc
          · simp only [hvt, if_false]; exact h1.kT v
        · intro v G hv
          have hv' : upd s1.fpc t .idle v = .setF G := hv
          simp only [upd] at hv'
          by_cases hvt : v = t
          · simp only [hvt, if_true] at hv'; cases hv'
          · simp only [hvt, if_false] at hv'; exact h1.pSet v G hv'
        · intro v G hv
          have hv' : upd s1.fpc t .idle v = .unl G := hv
          simp only [upd] at hv'
          by_cases hvt : v = t
          · simp only [hvt, if_true] at hv'; cases hv'
          · simp only [hvt, if_false] at hv'
            show CovC s1.hcov s1.glob (upd s1.know t { s1.know t with done := F :: (s1.know t).done } v).f G
            simp only [upd, hvt, if_false]
            exact h1.pUnl v G hv'
      | idle => exact h
      | lockW F => exact h
      | setF F => exact h
      | lvl l => exact h
      | log k lv => exact h
  | beginLvl u l =>
    obtain ⟨a, b⟩ := h.pcOut u (.lvl l) (by intro G; simp) (by intro G; simp)
    exact { hmono := h.hmono, hbound := h.hbound, kT := h.kT, kL := h.kL, kQ := h.kQ, pSet := a, pUnl := b }
  | storeLvl u =>
    simp only [step]
    cases hpcv : s.fpc u with
    | lvl l =>
      simp only []
      obtain ⟨a, b⟩ := h.pcOut u .idle (by intro G; simp) (by intro G; simp)
      refine { hmono := h.hmono, hbound := h.hbound, kT := ?_, kL := h.kL, kQ := h.kQ, pSet := a, pUnl := ?_ }
      · intro v
        show KOkC s.hlen s.hcov s.glob (upd s.know u { s.know u with l := s.llen } v)
        simp only [upd]
        by_cases hvu : v = u
        · simp only [hvu, if_true]; exact h.kT u
        · simp only [hvu, if_false]; exact h.kT v
      · intro v G hv
        show CovC s.hcov s.glob (upd s.know u { s.know u with l := s.llen } v).f G
        have := b v G hv
        simp only [upd]
        by_cases hvu : v = u
        · simp only [hvu, if_true]; rw [hvu] at this; exact this
        · simp only [hvu, if_false]; exact this
    | idle => exact h
    | lockW F => exact h
    | unl F => exact h
    | setF F => exact h
    | log k lv => exact h
  | beginLog u k lv =>
    obtain ⟨a, b⟩ := h.pcOut u (.log k lv) (by intro G; simp) (by intro G; simp)
    exact { hmono := h.hmono, hbound := h.hbound, kT := h.kT, kL := h.kL, kQ := h.kQ, pSet := a, pUnl := b }
  | logStore u =>
    simp only [step]
    cases hpcv : s.fpc u with
    | log k lv =>
      simp only []
      obtain ⟨a, b⟩ := h.pcOut u .idle (by intro G; simp) (by intro G; simp)
      refine { hmono := h.hmono, hbound := h.hbound, kT := h.kT, kL := h.kL, kQ := ?_, pSet := a, pUnl := b }
      intro v m hm
      have hm' : m ∈ upd s.queue u (s.queue u ++ [{ k := k, lv := lv, kn := s.know u }]) v := hm
      simp only [upd] at hm'
      by_cases hvu : v = u
      · simp only [hvu, if_true] at hm'
        rcases List.mem_append.mp hm' with h1 | h1
        · exact h.kQ u m h1
        · simp only [List.mem_singleton] at h1; subst h1; exact h.kT u
      · simp only [hvu, if_false] at hm'; exact h.kQ v m hm'
    | idle => exact h
    | lockW F => exact h
    | unl F => exact h
    | setF F => exact h
    | lvl l => exact h
  | beginPoll u =>
    exact { hmono := h.hmono, hbound := h.hbound, kT := h.kT, kL := h.kL, kQ := h.kQ, pSet := h.pSet, pUnl := h.pUnl }
  | pollLoad n =>
    simp only [step]
    cases hb : s.bpc with
    | poll u =>
      simp only []
      split
      · split
        · rename_i m hm
          have hmem : m ∈ s.queue u := List.mem_of_getElem? hm
          have hj := KOkC.join h.hmono (h.kT 0) (h.kQ u m hmem)
          refine { hmono := h.hmono, hbound := h.hbound, kT := ?_, kL := h.kL, kQ := h.kQ, pSet := h.pSet, pUnl := ?_ }
          · intro v
            show KOkC s.hlen s.hcov s.glob (upd s.know 0 ((s.know 0).join m.kn) v)
            simp only [upd]
            by_cases hv0 : v = 0
            · simp only [hv0, if_true]; exact hj
            · simp only [hv0, if_false]; exact h.kT v
          · intro v G hv
            show CovC s.hcov s.glob (upd s.know 0 ((s.know 0).join m.kn) v).f G
            have := h.pUnl v G hv
            simp only [upd]
            by_cases hv0 : v = 0
            · simp only [hv0, if_true]; rw [hv0] at this
              exact CovC.mono (h.hmono _ _ (by show (s.know 0).f ≤ max (s.know 0).f m.kn.f; omega) hj.1) this
            · simp only [hv0, if_false]; exact this
        · exact h
      · exact { hmono := h.hmono, hbound := h.hbound, kT := h.kT, kL := h.kL, kQ := h.kQ, pSet := h.pSet, pUnl := h.pUnl }
    | idle => exact h
    | lvl => exact h
    | flag => exact h
    | lockW => exact h
    | reset => exact h
    | unl => exact h
  | loadLvl j =>
    simp only [step]
    have hb : InvB { s with know := upd s.know 0 { s.know 0 with l := j }, curIdx := j, curSink := s.lval j } := by
      refine { hmono := h.hmono, hbound := h.hbound, kT := ?_, kL := h.kL, kQ := h.kQ, pSet := h.pSet, pUnl := ?_ }
      · intro v
        show KOkC s.hlen s.hcov s.glob (upd s.know 0 { s.know 0 with l := j } v)
        simp only [upd]
        by_cases hv0 : v = 0
        · simp only [hv0, if_true]; exact h.kT 0
        · simp only [hv0, if_false]; exact h.kT v
      · intro v G hv
        show CovC s.hcov s.glob (upd s.know 0 { s.know 0 with l := j } v).f G
        have := h.pUnl v G hv
        simp only [upd]
        by_cases hv0 : v = 0
        · simp only [hv0, if_true]; rw [hv0] at this; exact this
        · simp only [hv0, if_false]; exact this
    split
    · exact hb.finish false
    · exact { hmono := hb.hmono, hbound := hb.hbound, kT := hb.kT, kL := hb.kL, kQ := hb.kQ, pSet := hb.pSet, pUnl := hb.pUnl }
  | loadFlag j =>
    simp only [Enabled, enabled, Bool.and_eq_true, decide_eq_true_eq] at he
    obtain ⟨⟨_, hfl⟩, hjl⟩ := he
    simp only [step]
    have hb : InvB { s with know := upd s.know 0 { s.know 0 with f := j } } := by
      refine { hmono := h.hmono, hbound := h.hbound, kT := ?_, kL := h.kL, kQ := h.kQ, pSet := h.pSet, pUnl := ?_ }
      · intro v
        show KOkC s.hlen s.hcov s.glob (upd s.know 0 { s.know 0 with f := j } v)
        simp only [upd]
        by_cases hv0 : v = 0
        · simp only [hv0, if_true]; exact (h.kT 0).raise h.hmono j hfl hjl
        · simp only [hv0, if_false]; exact h.kT v
      · intro v G hv
        show CovC s.hcov s.glob (upd s.know 0 { s.know 0 with f := j } v).f G
        have := h.pUnl v G hv
        simp only [upd]
        by_cases hv0 : v = 0
        · simp only [hv0, if_true]; rw [hv0] at this
          exact CovC.mono (h.hmono _ _ hfl hjl) this
        · simp only [hv0, if_false]; exact this
    split
    · exact { hmono := hb.hmono, hbound := hb.hbound, kT := hb.kT, kL := hb.kL, kQ := hb.kQ, pSet := hb.pSet, pUnl := hb.pUnl }
    · exact hb.finish true
  | reset =>
    simp only [step]
    obtain ⟨a1, a2, a3, a4, a5, a6, a7⟩ := h.storeFlag 0 false
    have hb : InvB { storeFlag s 0 false with bpc := .unl } := by
      refine { hmono := a1, hbound := a2, kT := a3, kL := a4, kQ := a5, pSet := h.pSet, pUnl := ?_ }
      intro v G hv
      by_cases hv0 : v = 0
      · rw [hv0]; exact a7 G (by
          have := h.pUnl v G hv
          obtain ⟨q, _, hq⟩ := this
          exact List.mem_of_getElem? hq)
      · exact a6 v G hv0 (h.pUnl v G hv)
    split
    · have h2 := hb.touch p.lock 0
      exact { hmono := h2.hmono, hbound := h2.hbound, kT := h2.kT, kL := h2.kL, kQ := h2.kQ, pSet := h2.pSet, pUnl := h2.pUnl }
    · exact hb
  | tryFail => exact h.finish true

end Filt
