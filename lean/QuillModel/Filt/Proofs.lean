import QuillModel.Filt.ProofsD
/-! The invariant of `Filt/Model.lean` (stages A–D together) holds in every reachable state, for every number of
frontend threads, every schedule and every legal (possibly stale) result of the relaxed loads. -/
namespace Filt

structure FInv (p : Params) (s : St) : Prop where
  a : InvA s
  b : InvB s
  c : InvC p s
  d : InvD s

theorem init_inv (p : Params) (n lvl0 : Nat) : FInv p (init n lvl0) :=
  ⟨initA n lvl0, initB n lvl0, initC p n lvl0, initD n lvl0⟩

theorem step_inv (p : Params) (ho : Spin.OrdersOK p.lock) (hnt : p.tryLock = false) (s : St) (op : Op)
    (h : FInv p s) (he : Enabled p s op) : FInv p (step p s op) :=
  ⟨stepA p ho hnt s op h.a he, stepB p s op h.b he, stepC p hnt s op h.a h.b h.c he, stepD p hnt s op h.b h.c h.d he⟩

theorem reachable_inv (p : Params) (ho : Spin.OrdersOK p.lock) (hnt : p.tryLock = false) :
    ∀ (ops : List Op) (s : St), FInv p s → Run p s ops → FInv p (run p s ops)
  | [], _, h, _ => h
  | op :: ops, s, h, hr => reachable_inv p ho hnt ops _ (step_inv p ho hnt s op h hr.1) hr.2

end Filt
