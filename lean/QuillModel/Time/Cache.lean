import QuillModel.Time.Strftime
/-!
# The cache machine: `quill::detail::StringFromTime` and `TimestampFormatter`

Character-level model of `include/quill/backend/StringFromTime.h` and `TimestampFormatter.h`, following the
code as it is: `%X` rejected by substring search, `%r %R %T` rewritten by substring replacement, the pattern split
at the first of the seven modifiers `%H %M %S %I %k %l %s` (again by substring search), the pre-formatted string
with the positions of those fields, recalculation at noon/midnight (GMT) or every quarter hour (local time),
digit patching from the second difference, plain `strftime` for instants before the cached one; and the
formatter's split at the first `%Qms` / `%Qus` / `%Qns`, its exclusivity check and its fraction writer.
`tz : Nat → ZInfo` is the time-zone database seen through `localtime_r` (GMT mode ignores it); `P` is the
local-time recalculation period written in the header (extracted on every run).
-/
namespace Time

/-! ### substring search as the C++ does it (`std::string::find` of "%…") -/

/-- first position where a `'%'` is followed by text satisfying `pred`: returns (text before the '%', text after the '%') -/
def findAt (pred : List Char → Bool) : List Char → Option (List Char × List Char)
  | [] => none
  | c :: rest =>
    if c = '%' ∧ pred rest = true then some ([], rest)
    else match findAt pred rest with
      | some (a, b) => some (c :: a, b)
      | none => none

def startsWith (pre : List Char) (s : List Char) : Bool := pre.isPrefixOf s

/-- `_replace_all (str, "%c", new)` in one pass: left to right, the replacement is not rescanned
    (`replaceAllCpp_eq` in `SplitProofs.lean`: this is what the loop below computes) -/
def replaceAll (c : Char) (new : List Char) : List Char → List Char
  | [] => []
  | a :: rest =>
    let skip : Unit → List Char := fun _ => a :: replaceAll c new rest
    match rest with
    | [] => [a]
    | b :: rest' => if a = '%' ∧ b = c then new ++ replaceAll c new rest' else skip ()

/-- `_replace_all` as written: `while ((pos = str.find (old, pos)) != npos) { str.replace (pos, 2, new); pos += new.length (); }`
    — the text before `pos` is final, the search continues in the text after the replacement (fuel = iterations) -/
def replaceAllCppF : Nat → Char → List Char → List Char → List Char
  | 0, _, _, s => s
  | f + 1, c, new, s =>
    match findAt (startsWith [c]) s with
    | none => s
    | some (a, b) => a ++ new ++ replaceAllCppF f c new (b.drop 1)

def replaceAllCpp (c : Char) (new : List Char) (s : List Char) : List Char := replaceAllCppF s.length c new s

/-! ### the seven patched modifiers -/

inductive FT | H | M | S | I | k | l | s
deriving DecidableEq, Repr

def FT.ofChar (c : Char) : Option FT :=
  if c = 'H' then some .H else if c = 'M' then some .M else if c = 'S' then some .S else if c = 'I' then some .I
  else if c = 'k' then some .k else if c = 'l' then some .l else if c = 's' then some .s else none

def FT.char : FT → Char
  | .H => 'H' | .M => 'M' | .S => 'S' | .I => 'I' | .k => 'k' | .l => 'l' | .s => 's'

/-- how far before the end of the freshly appended text the field starts (`size() - 2`, `size() - 10`) -/
def FT.back : FT → Nat
  | .s => 10
  | _ => 2

/-- the table `_split_timestamp_format_once` searches for, in the order of the C++ array -/
def modifierTable : List Char := ['H', 'M', 'S', 'I', 'k', 'l', 's']
/-- (modifier, distance from the end, fill, width) as written in the two switch statements -/
def patchTable : List (Char × Nat × Char × Nat) :=
  [('H', 2, '0', 2), ('M', 2, '0', 2), ('S', 2, '0', 2), ('I', 2, '0', 2), ('k', 2, ' ', 2), ('l', 2, ' ', 2), ('s', 10, ' ', 10)]
/-- (modifier, argument of the patching `format_to` as written in the switch, blanks removed) — `patchText` below -/
def patchArgs : List (Char × String) :=
  [('H', "hours"), ('M', "minutes"), ('S', "seconds"), ('I', "(hours==0?12:(hours>12?hours-12:hours))"), ('k', "hours"),
   ('l', "(hours==0?12:(hours>12?hours-12:hours))"), ('s', "_cached_timestamp")]
/-- `total_seconds / 3600`, `- hours * 3600`, `/ 60`, `- minutes * 60` -/
def hmsDivisors : List Nat := [3600, 3600, 60, 60]
/-- (specifier, zeros appended, divisor of the nanoseconds): `Frac.width`, `Frac.value` -/
def fracTable : List (String × Nat × Nat) := [("%Qms", 3, 1000000), ("%Qus", 6, 1000), ("%Qns", 9, 1)]
/-- the rewrites applied by `init`, in order -/
def rewriteTable : List (Char × String) := [('r', "%I:%M:%S %p"), ('R', "%H:%M"), ('T', "%H:%M:%S")]
/-- the substring `init` rejects -/
def rejectedTable : List String := ["%X"]
/-- `_next_noon_or_midnight_timestamp`: (hour bound of the test, hour set before noon, hour set after noon, minute,
    second, seconds added after `timegm`) -/
def noonMidnightTable : List Nat := [12, 11, 23, 59, 59, 1]
/-- seconds between recalculation points in GMT mode (what the table above amounts to, see `nextNoonOrMidnight_eq`) -/
def gmtPeriod : Nat := 43200

def isModifier (c : Char) : Bool := (FT.ofChar c).isSome

/-- first position where a `'%'` is followed by one of the seven modifier letters: (part before it, the modifier, the
    text after it) — what `_split_timestamp_format_once` amounts to (`splitOnceCpp_eq` in `SplitProofs.lean`) -/
def splitOnce (fmt : List Char) : Option (List Char × FT × List Char) :=
  match findAt (fun r => match r with | c :: _ => isModifier c | [] => false) fmt with
  | some (p1, c :: rest) => (FT.ofChar c).map (fun ft => (p1, ft, rest))
  | _ => none

/-- `timestamp_format.find ("%c")` -/
def findPct (c : Char) (fmt : List Char) : Option Nat := (findAt (startsWith [c]) fmt).map (fun ab => ab.1.length)

/-- `found_format_modifiers.emplace (search, modifier)` into a `std::map` keyed by the index, then `begin()`: the
    entry with the smallest index (for equal indexes `emplace` keeps the one inserted first) -/
def minEntry (found : List (Nat × FT)) : Option (Nat × FT) :=
  found.foldl (fun acc e => match acc with
    | none => some e
    | some a => if e.1 < a.1 then some e else some a) none

/-- `_split_timestamp_format_once` as written: search each of the seven modifiers in the order of the array, take the
    hit with the lowest index, cut there -/
def splitOnceCpp (fmt : List Char) : Option (List Char × FT × List Char) :=
  let found : List (Nat × FT) :=
    [FT.H, FT.M, FT.S, FT.I, FT.k, FT.l, FT.s].filterMap (fun ft => (findPct ft.char fmt).map (fun i => (i, ft)))
  match minEntry found with
  | none => none
  | some (i, ft) => some (fmt.take i, ft, fmt.drop (i + 2))

/-- `_populate_initial_parts` (fuel = number of loop iterations; `fmt.length + 1` always suffices) -/
def populatePartsF : Nat → List Char → List (List Char)
  | 0, _ => []
  | f + 1, fmt =>
    match splitOnceCpp fmt with
    | none => if fmt = [] then [] else [fmt]
    | some (p1, ft, rest) => (if p1 = [] then [] else [p1]) ++ [['%', ft.char]] ++ populatePartsF f rest

def populateParts (fmt : List Char) : List (List Char) := populatePartsF (fmt.length + 1) fmt

/-- which of the `if (format_part == "%H") …` tests a part passes -/
def partType (part : List Char) : Option FT :=
  match part with
  | ['%', c] => FT.ofChar c
  | _ => none

/-! ### the cache -/

structure SFT where
  fmt : List Char                  -- `_timestamp_format` (after the rewrites)
  parts : List (List Char)         -- `_initial_parts`
  localTime : Bool                 -- `_time_zone == Timezone::LocalTime`
  pre : List Char := []            -- `_pre_formatted_ts`
  idx : List (Nat × FT) := []      -- `_cached_indexes`
  nextRecalc : Nat := 0            -- `_next_recalculation_timestamp`
  cachedTs : Nat := 0              -- `_cached_timestamp`
  cachedSecs : Nat := 0            -- `_cached_seconds` (uint32_t)
deriving DecidableEq, Repr

inductive InitError | percentX | exclusive | repeated
deriving DecidableEq, Repr

def rewrite (fmt : List Char) : List Char :=
  replaceAllCpp 'T' "%H:%M:%S".toList (replaceAllCpp 'R' "%H:%M".toList (replaceAllCpp 'r' "%I:%M:%S %p".toList fmt))

/-- `StringFromTime::init` -/
def SFT.init (fmt : List Char) (localTime : Bool) : Except InitError SFT :=
  if (findAt (startsWith ['X']) fmt).isSome then .error .percentX
  else
    let f := rewrite fmt
    .ok { fmt := f, parts := populateParts f, localTime := localTime }

/-- the broken-down time the machine obtains for instant `t` -/
def tmOf (localTime : Bool) (tz : Nat → ZInfo) (t : Nat) : Tm :=
  if localTime then mkTm t (tz t) else gmtime t

/-- `_safe_strftime` -/
def safeStrftime (fmt : List Char) (tm : Tm) : List Char :=
  if fmt = [] then [] else strftimePlain fmt tm

/-- the loop of `_populate_pre_formatted_string_and_cached_indexes` -/
def populatePre (tm : Tm) : List (List Char) → List Char → List (Nat × FT) → List Char × List (Nat × FT)
  | [], pre, idx => (pre, idx)
  | part :: ps, pre, idx =>
    let pre' := pre ++ safeStrftime part tm
    let idx' := match partType part with
      | some ft => idx ++ [(pre'.length - ft.back, ft)]
      | none => idx
    populatePre tm ps pre' idx'

/-- `_next_noon_or_midnight_timestamp`: gmtime, set 11:59:59 or 23:59:59, timegm, plus one -/
def nextNoonOrMidnight (t : Nat) : Nat :=
  let tm := gmtime t
  let h := if tm.hour < 12 then 11 else 23
  daysFromCivil (yearOf tm.days) (monOf tm.days) (mdayOf tm.days) * 86400 + h * 3600 + 59 * 60 + 59 + 1

/-- `_next_quarter_hour_timestamp`: `P` is the literal of the header (900 in the pinned tree; extracted on every run) -/
def nextQuarterHour (P : Nat) (t : Nat) : Nat := t / P * P + P

def SFT.recalc (P : Nat) (tz : Nat → ZInfo) (s : SFT) (t : Nat) : SFT :=
  let tm := tmOf s.localTime tz t
  let r := populatePre tm s.parts [] []
  { s with pre := r.1, idx := r.2, cachedTs := t, cachedSecs := tm.hour * 3600 + tm.min * 60 + tm.sec,
           nextRecalc := if s.localTime then nextQuarterHour P t else nextNoonOrMidnight t }

/-- write `w` over `s` starting at position `i` (`format_to(&s[i], …)` / `memcpy(&s[i], …)`) -/
def overwrite (s : List Char) (i : Nat) (w : List Char) : List Char :=
  s.take i ++ w ++ s.drop (i + w.length)

/-- the text one `case` of the patch switch writes -/
def patchText (ft : FT) (hours minutes seconds ts : Nat) : List Char :=
  match ft with
  | .H => padNum '0' 2 hours
  | .M => padNum '0' 2 minutes
  | .S => padNum '0' 2 seconds
  | .I => padNum '0' 2 (if hours = 0 then 12 else if hours > 12 then hours - 12 else hours)
  | .l => padNum ' ' 2 (if hours = 0 then 12 else if hours > 12 then hours - 12 else hours)
  | .k => padNum ' ' 2 hours
  | .s => padNum ' ' 10 ts

def patchAll (hours minutes seconds ts : Nat) (idx : List (Nat × FT)) (pre : List Char) : List Char :=
  idx.foldl (fun acc e => overwrite acc e.1 (patchText e.2 hours minutes seconds ts)) pre

/-- `StringFromTime::format_timestamp` -/
def SFT.step (P : Nat) (tz : Nat → ZInfo) (s : SFT) (t : Nat) : SFT × List Char :=
  if t < s.cachedTs then (s, safeStrftime s.fmt (tmOf s.localTime tz t))
  else
    let s1 := if s.nextRecalc ≤ t then s.recalc P tz t else s
    if s1.idx = [] then (s1, s1.pre)
    else if s1.cachedTs = t then (s1, s1.pre)
    else
      let diff := t - s1.cachedTs
      let cs := (s1.cachedSecs + diff % 4294967296) % 4294967296
      let hours := cs / 3600
      let minutes := (cs - hours * 3600) / 60
      let seconds := cs - hours * 3600 - minutes * 60
      let pre' := patchAll hours minutes seconds t s1.idx s1.pre
      ({ s1 with cachedTs := t, cachedSecs := cs, pre := pre' }, pre')

/-! ### `TimestampFormatter` -/

structure TF where
  spec : Option Frac
  p1 : SFT
  p2 : Option SFT
deriving DecidableEq, Repr

def findFrac (k : Frac) (fmt : List Char) : Option (List Char × List Char) :=
  match findAt (startsWith ['Q', k.letter, 's']) fmt with
  | some (a, b) => some (a, b.drop 3)
  | none => none

/-- the constructor: look for `%Qms`, `%Qus`, `%Qns` in this order, throw when a second kind is found,
    split at the first occurrence of the kind found; `rr` = the header also throws when the text after the split
    still contains a fractional specifier (finding F21, repaired by a `fix:` commit; extracted on every run) -/
def TF.init (rr : Bool) (fmt : List Char) (localTime : Bool) : Except InitError TF :=
  let ms := findFrac .ms fmt
  let us := findFrac .us fmt
  let ns := findFrac .ns fmt
  if ms.isSome ∧ us.isSome then .error .exclusive
  else if (ms.isSome ∨ us.isSome) ∧ ns.isSome then .error .exclusive
  else
    let found : Option (Frac × (List Char × List Char)) :=
      match ns, us, ms with
      | some x, _, _ => some (.ns, x)
      | none, some x, _ => some (.us, x)
      | none, none, some x => some (.ms, x)
      | none, none, none => none
    match found with
    | none => do
      let p1 ← SFT.init fmt localTime
      pure { spec := none, p1 := p1, p2 := none }
    | some (k, (a, b)) => do
      let p1 ← SFT.init a localTime
      if rr = true ∧ ((findFrac .ms b).isSome ∨ (findFrac .us b).isSome ∨ (findFrac .ns b).isSome) then .error .repeated
      else if b = [] then pure { spec := some k, p1 := p1, p2 := none }
      else do
        let p2 ← SFT.init b localTime
        pure { spec := some k, p1 := p1, p2 := some p2 }

/-- `append(zeros)` then `_write_fractional_seconds`: the digits of `v` copied so that they end at the end -/
def writeFrac (width : Nat) (v : Nat) : List Char :=
  let zeros := List.replicate width '0'
  let ds := natDigits v
  overwrite zeros (zeros.length - ds.length) ds

/-- `TimestampFormatter::format_timestamp` for `ns` nanoseconds since the epoch -/
def TF.step (P : Nat) (tz : Nat → ZInfo) (f : TF) (ns : Nat) : TF × List Char :=
  let secs := ns / 1000000000
  let r1 := f.p1.step P tz secs
  let extracted := ns - secs * 1000000000
  let mid := match f.spec with
    | some k => writeFrac k.width (k.value extracted)
    | none => []
  match f.p2 with
  | some p2 =>
    let r2 := p2.step P tz secs
    ({ f with p1 := r1.1, p2 := some r2.1 }, r1.2 ++ mid ++ r2.2)
  | none => ({ f with p1 := r1.1 }, r1.2 ++ mid)

/-- outputs of a whole history -/
def TF.run (P : Nat) (tz : Nat → ZInfo) : TF → List Nat → List (List Char)
  | _, [] => []
  | f, ns :: rest => (f.step P tz ns).2 :: TF.run P tz (f.step P tz ns).1 rest

def SFT.run (P : Nat) (tz : Nat → ZInfo) : SFT → List Nat → List (List Char)
  | _, [] => []
  | s, t :: rest => (s.step P tz t).2 :: SFT.run P tz (s.step P tz t).1 rest

end Time
