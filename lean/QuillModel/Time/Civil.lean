/-!
# Civil calendar and broken-down time (reference side of C13)

`gmtime_r` / `localtime_r` as total computable functions over `Nat` for the instants the property quantifies
over (2001–2100): days since 1970-01-01 → proleptic Gregorian year / month / day (Howard Hinnant's
`civil_from_days`, which is what glibc's `__offtime` computes), weekday, day of the year, the ISO-8601 week
quantities `strftime` needs, and `timegm` (`days_from_civil`). No Mathlib. Proofs are in `CivilProofs.lean`.
-/
namespace Time

structure Date where
  year : Nat
  mon : Nat   -- 1..12
  day : Nat   -- 1..31
deriving DecidableEq, Repr

/-- days since 1970-01-01 → civil date -/
def civilFromDays (z0 : Nat) : Date :=
  let z := z0 + 719468
  let era := z / 146097
  let doe := z % 146097
  let yoe := (doe - doe / 1460 + doe / 36524 - doe / 146096) / 365
  let doy := doe - (365 * yoe + yoe / 4 - yoe / 100)
  let mp := (5 * doy + 2) / 153
  let d := doy - (153 * mp + 2) / 5 + 1
  let m := if mp < 10 then mp + 3 else mp - 9
  let y := yoe + era * 400
  { year := if m ≤ 2 then y + 1 else y, mon := m, day := d }

/-- civil date → days since 1970-01-01 (`timegm` on the date part); meaningful for dates from 1970-01-01 on -/
def daysFromCivil (y m d : Nat) : Nat :=
  let y' := if m ≤ 2 then y - 1 else y
  let era := y' / 400
  let yoe := y' % 400
  let mp := if m > 2 then m - 3 else m + 9
  let doy := (153 * mp + 2) / 5 + d - 1
  let doe := yoe * 365 + yoe / 4 - yoe / 100 + doy
  era * 146097 + doe - 719468

def isLeap (y : Nat) : Bool := y % 4 = 0 ∧ (y % 100 ≠ 0 ∨ y % 400 = 0)

def yearOf (days : Nat) : Nat := (civilFromDays days).year
def monOf (days : Nat) : Nat := (civilFromDays days).mon
def mdayOf (days : Nat) : Nat := (civilFromDays days).day
/-- `tm_wday`: 1970-01-01 was a Thursday -/
def wdayOf (days : Nat) : Nat := (days + 4) % 7
/-- `tm_yday` (0-based) -/
def ydayOf (days : Nat) : Nat := days - daysFromCivil (yearOf days) 1 1

/-- glibc `iso_week_days (yday, wday)`: days since the Monday of ISO week 1 (may be negative) -/
def isoWeekDays (yday : Int) (wday : Int) : Int :=
  yday - (yday - wday + 4 + 378) % 7 + 4 - 1

/-- ISO-8601 week-based year and week number (glibc `%G`, `%V`) -/
def isoYearWeek (days : Nat) : Int × Int :=
  let year : Int := yearOf days
  let yd : Int := ydayOf days
  let wd : Int := wdayOf days
  let d0 := isoWeekDays yd wd
  if d0 < 0 then
    let ylen : Int := if isLeap (yearOf days - 1) then 366 else 365
    (year - 1, isoWeekDays (yd + ylen) wd / 7 + 1)
  else
    let ylen : Int := if isLeap (yearOf days) then 366 else 365
    let d1 := isoWeekDays (yd - ylen) wd
    if 0 ≤ d1 then (year + 1, d1 / 7 + 1) else (year, d0 / 7 + 1)

/-- first second of 2001 and first second of 2101: the range of instants C13 quantifies over -/
def tMin : Nat := 978307200
def tMax : Nat := 4133980800

end Time
