import QuillModel.Time.LexProofs
/-!
# The substring searches of the C++ seen through the tokens

`findAt pred` (the model of `std::string::find("%…")`) applied to the character form of a *supported* token
list finds exactly the first token that is a hit — it can neither match inside a token nor across two tokens,
because the only token ending in `'%'` is `%%` and the supported patterns forbid the letters that matter after it.
Likewise `replaceAll` rewrites exactly the `%c` conversion tokens.
-/
namespace Time

/-! ### `findAt`, character level -/

theorem findAt_cons (pred : List Char → Bool) (c : Char) (rest : List Char) :
    findAt pred (c :: rest) =
      if c = '%' ∧ pred rest = true then some ([], rest)
      else (findAt pred rest).map (fun ab => (c :: ab.1, ab.2)) := by
  rw [findAt]
  split
  · rfl
  · cases findAt pred rest with
    | none => rfl
    | some ab => cases ab; rfl

theorem findAt_cons_ne (pred : List Char → Bool) (c : Char) (rest : List Char) (h : c ≠ '%') :
    findAt pred (c :: rest) = (findAt pred rest).map (fun ab => (c :: ab.1, ab.2)) := by
  rw [findAt_cons]; simp [h]

theorem findAt_pct_miss (pred : List Char → Bool) (rest : List Char) (h : pred rest = false) :
    findAt pred ('%' :: rest) = (findAt pred rest).map (fun ab => ('%' :: ab.1, ab.2)) := by
  rw [findAt_cons]; simp [h]

theorem findAt_pct_hit (pred : List Char → Bool) (rest : List Char) (h : pred rest = true) :
    findAt pred ('%' :: rest) = some ([], rest) := by
  rw [findAt_cons]; simp [h]

/-- skipping a run of characters other than `'%'` -/
theorem findAt_skip_plain (pred : List Char → Bool) : ∀ (cs rest : List Char), (∀ c ∈ cs, c ≠ '%') →
    findAt pred (cs ++ rest) = (findAt pred rest).map (fun ab => (cs ++ ab.1, ab.2)) := by
  intro cs
  induction cs with
  | nil => intro rest _; simp
  | cons c cs ih =>
    intro rest h
    rw [List.cons_append, findAt_cons_ne _ _ _ (h c (by simp)), ih rest (fun x hx => h x (by simp [hx]))]
    cases findAt pred rest <;> simp

/-! ### the head of what follows a `%%` -/

/-- the next character is not one of the letters the searches look for after a `'%'` -/
def headSafe : List Char → Bool
  | [] => true
  | c :: _ => !badAfterPct.contains c

theorem tok_chars_ne_nil (t : Tok) : t.chars ≠ [] := by cases t <;> simp [Tok.chars]

theorem headSafe_of_adj (rest : List Tok) (h : adjOK .pct rest = true) (hs : supportedToks rest = true) :
    headSafe (charsOf rest) = true := by
  cases rest with
  | nil => rfl
  | cons t ts =>
    rw [supported_cons] at hs
    cases t with
    | lit c => simpa [adjOK, headSafe, Tok.chars] using h
    | stray => simp [okTok] at hs
    | pct => simp [headSafe, Tok.chars, badAfterPct]
    | conv c => simp [headSafe, Tok.chars, badAfterPct]
    | mod m c => simp [headSafe, Tok.chars, badAfterPct]
    | frac k => simp [headSafe, Tok.chars, badAfterPct]

/-- a search predicate that can only fire on one of the `badAfterPct` letters -/
def PredSafe (pred : List Char → Bool) : Prop := ∀ rest, headSafe rest = true → pred rest = false

/-! ### one token -/

/-- `findAt` walks over a token that is not a hit -/
theorem findAt_skip_tok (pred : List Char → Bool) (hp : PredSafe pred) (tok : Tok) (rest : List Char)
    (hok : okTok tok = true) (hadj : tok = .pct → headSafe rest = true)
    (hmiss : ∀ tail, tok ≠ .pct → tok.chars = '%' :: tail → pred (tail ++ rest) = false) :
    findAt pred (tok.chars ++ rest) = (findAt pred rest).map (fun ab => (tok.chars ++ ab.1, ab.2)) := by
  cases tok with
  | lit c =>
    simp only [Tok.chars, List.singleton_append]
    exact findAt_cons_ne _ _ _ (okTok_lit c hok)
  | pct =>
    simp only [Tok.chars, List.cons_append, List.nil_append]
    have h1 : pred ('%' :: rest) = false := hp _ (by simp [headSafe, badAfterPct])
    have h2 : pred rest = false := hp _ (hadj rfl)
    rw [findAt_pct_miss _ _ h1, findAt_pct_miss _ _ h2]
    cases findAt pred rest <;> simp
  | conv c =>
    simp only [okTok, Bool.and_eq_true] at hok
    simp only [Tok.chars, List.cons_append, List.nil_append]
    have hm := hmiss [c] (by simp) rfl
    simp only [List.singleton_append] at hm
    rw [findAt_pct_miss _ _ hm, findAt_cons_ne _ _ _ (isConv_ne_pct c hok.1)]
    cases findAt pred rest <;> simp
  | mod m c =>
    simp only [okTok, Bool.and_eq_true] at hok
    obtain ⟨hm, hc, _⟩ := isModConv_cases m c hok.1
    have h1 : m ≠ '%' := by rcases hm with rfl | rfl <;> decide
    simp only [Tok.chars, List.cons_append, List.nil_append]
    have hmi := hmiss [m, c] (by simp) rfl
    simp only [List.cons_append, List.nil_append] at hmi
    rw [findAt_pct_miss _ _ hmi, findAt_cons_ne _ _ _ h1, findAt_cons_ne _ _ _ hc]
    cases findAt pred rest <;> simp
  | frac k =>
    simp only [Tok.chars, List.cons_append, List.nil_append]
    have hmi := hmiss ['Q', k.letter, 's'] (by simp) rfl
    simp only [List.cons_append, List.nil_append] at hmi
    have hl : k.letter ≠ '%' := by cases k <;> decide
    rw [findAt_pct_miss _ _ hmi, findAt_cons_ne _ _ _ (by decide), findAt_cons_ne _ _ _ hl,
      findAt_cons_ne _ _ _ (by decide)]
    cases findAt pred rest <;> simp
  | stray => simp [okTok] at hok

/-! ### a token list -/

/-- split a token list at its first hit -/
def splitHit (hit : Tok → Bool) : List Tok → Option (List Tok × Tok × List Tok)
  | [] => none
  | t :: rest =>
    if hit t then some ([], t, rest)
    else (splitHit hit rest).map (fun r => (t :: r.1, r.2.1, r.2.2))

theorem splitHit_some (hit : Tok → Bool) : ∀ (toks a : List Tok) (x : Tok) (b : List Tok),
    splitHit hit toks = some (a, x, b) → toks = a ++ x :: b ∧ hit x = true ∧ ∀ t ∈ a, hit t = false := by
  intro toks
  induction toks with
  | nil => intro a x b h; simp [splitHit] at h
  | cons t ts ih =>
    intro a x b h
    simp only [splitHit] at h
    by_cases ht : hit t = true
    · simp only [ht, if_true, Option.some.injEq, Prod.mk.injEq] at h
      obtain ⟨rfl, rfl, rfl⟩ := h
      simp [ht]
    · simp only [ht, Bool.false_eq_true, if_false, Option.map_eq_some_iff] at h
      obtain ⟨⟨a', x', b'⟩, hs, he⟩ := h
      simp only [Prod.mk.injEq] at he
      obtain ⟨rfl, rfl, rfl⟩ := he
      obtain ⟨h1, h2, h3⟩ := ih a' x' b' hs
      refine ⟨by simp [h1], h2, ?_⟩
      intro u hu
      simp only [List.mem_cons] at hu
      rcases hu with rfl | hu
      · simpa using ht
      · exact h3 u hu

theorem splitHit_none (hit : Tok → Bool) : ∀ (toks : List Tok),
    splitHit hit toks = none → ∀ t ∈ toks, hit t = false := by
  intro toks
  induction toks with
  | nil => intro _ t ht; simp at ht
  | cons t ts ih =>
    intro h u hu
    simp only [splitHit] at h
    by_cases ht : hit t = true
    · simp [ht] at h
    · simp only [ht, Bool.false_eq_true, if_false, Option.map_eq_none_iff] at h
      simp only [List.mem_cons] at hu
      rcases hu with rfl | hu
      · simpa using ht
      · exact ih h u hu

theorem splitHit_of_none_mem (hit : Tok → Bool) : ∀ (toks : List Tok),
    (∀ t ∈ toks, hit t = false) → splitHit hit toks = none := by
  intro toks
  induction toks with
  | nil => intro _; rfl
  | cons t ts ih =>
    intro h
    simp [splitHit, h t (by simp), ih (fun u hu => h u (by simp [hu]))]

theorem splitHit_append (hit : Tok → Bool) : ∀ (a : List Tok) (x : Tok) (b : List Tok),
    (∀ t ∈ a, hit t = false) → hit x = true → splitHit hit (a ++ x :: b) = some (a, x, b) := by
  intro a
  induction a with
  | nil => intro x b _ hx; simp [splitHit, hx]
  | cons t ts ih =>
    intro x b h hx
    simp [splitHit, h t (by simp), ih x b (fun u hu => h u (by simp [hu])) hx]

/-- what makes `hit` the token-level reading of `pred` -/
structure HitSpec (pred : List Char → Bool) (hit : Tok → Bool) : Prop where
  safe : PredSafe pred
  miss : ∀ (tok : Tok) (tail rest : List Char), okTok tok = true → tok ≠ .pct → hit tok = false →
    tok.chars = '%' :: tail → pred (tail ++ rest) = false
  fire : ∀ (tok : Tok), hit tok = true → ∃ tail, tok.chars = '%' :: tail ∧ ∀ rest, pred (tail ++ rest) = true

/-- **the search finds the first hit token and nothing else** -/
theorem findAt_toks (pred : List Char → Bool) (hit : Tok → Bool) (hs : HitSpec pred hit) :
    ∀ (toks : List Tok), supportedToks toks = true →
    findAt pred (charsOf toks) =
      (splitHit hit toks).map (fun r => (charsOf r.1, r.2.1.chars.tail ++ charsOf r.2.2)) := by
  intro toks
  induction toks with
  | nil => intro _; simp [splitHit, findAt]
  | cons t ts ih =>
    intro h
    rw [supported_cons] at h
    obtain ⟨hok, hadj, hrest⟩ := h
    simp only [charsOf_cons, splitHit]
    by_cases ht : hit t = true
    · obtain ⟨tail, htail, hfire⟩ := hs.fire t ht
      simp only [ht, if_true, Option.map_some, charsOf_nil]
      rw [htail, List.cons_append, findAt_pct_hit _ _ (hfire _)]
      simp
    · have ht' : hit t = false := by simpa using ht
      simp only [ht', Bool.false_eq_true, if_false, Option.map_map]
      rw [findAt_skip_tok pred hs.safe t (charsOf ts) hok
        (fun e => by subst e; exact headSafe_of_adj ts hadj hrest)
        (fun tail hne hc => hs.miss t tail _ hok hne ht' hc), ih hrest]
      cases splitHit hit ts <;> simp [Function.comp]

/-! ### the three searches -/

def hitX : Tok → Bool
  | .conv c => c == 'X'
  | _ => false

def hitMod : Tok → Bool
  | .conv c => isModifier c
  | _ => false

def hitFrac (k : Frac) : Tok → Bool
  | .frac k' => k == k'
  | _ => false

def predMod : List Char → Bool := fun r => match r with | c :: _ => isModifier c | [] => false

theorem isModifier_bad (c : Char) (h : isModifier c = true) : badAfterPct.contains c = true := by
  simp only [isModifier, FT.ofChar] at h
  repeat' split at h
  all_goals first | (subst_vars; decide) | simp at h

theorem hitSpec_X : HitSpec (startsWith ['X']) hitX where
  safe := by
    intro rest h
    cases rest with
    | nil => rfl
    | cons c r =>
      simp only [headSafe, Bool.not_eq_true'] at h
      simp only [startsWith, List.isPrefixOf, Bool.and_true, beq_eq_false_iff_ne]
      intro e; subst e; revert h; decide
  miss := by
    intro tok tail rest hok hne hh hc
    cases tok with
    | lit c => simp [Tok.chars] at hc; exact absurd hc.1 (okTok_lit c hok)
    | pct => exact absurd rfl hne
    | conv c =>
      simp only [Tok.chars, List.cons.injEq, true_and] at hc; subst hc
      simp only [hitX, beq_eq_false_iff_ne] at hh
      simp [startsWith, List.isPrefixOf, Ne.symm hh]
    | mod m c =>
      simp only [okTok, Bool.and_eq_true] at hok
      obtain ⟨hm, _, _⟩ := isModConv_cases m c hok.1
      simp only [Tok.chars, List.cons.injEq, true_and] at hc; subst hc
      rcases hm with rfl | rfl <;> simp [startsWith, List.isPrefixOf]
    | frac k =>
      simp only [Tok.chars, List.cons.injEq, true_and] at hc; subst hc
      simp [startsWith, List.isPrefixOf]
    | stray => simp [okTok] at hok
  fire := by
    intro tok h
    cases tok with
    | conv c =>
      simp only [hitX, beq_iff_eq] at h; subst h
      exact ⟨['X'], rfl, fun rest => by simp [startsWith, List.isPrefixOf]⟩
    | _ => simp [hitX] at h

theorem hitSpec_mod : HitSpec predMod hitMod where
  safe := by
    intro rest h
    cases rest with
    | nil => rfl
    | cons c r =>
      simp only [headSafe, Bool.not_eq_true'] at h
      simp only [predMod]
      cases hm : isModifier c with
      | false => rfl
      | true => rw [isModifier_bad c hm] at h; cases h
  miss := by
    intro tok tail rest hok hne hh hc
    cases tok with
    | lit c => simp [Tok.chars] at hc; exact absurd hc.1 (okTok_lit c hok)
    | pct => exact absurd rfl hne
    | conv c =>
      simp only [Tok.chars, List.cons.injEq, true_and] at hc; subst hc
      simpa [predMod, hitMod] using hh
    | mod m c =>
      simp only [okTok, Bool.and_eq_true] at hok
      obtain ⟨hm, _, _⟩ := isModConv_cases m c hok.1
      simp only [Tok.chars, List.cons.injEq, true_and] at hc; subst hc
      rcases hm with rfl | rfl <;> simp [predMod] <;> decide
    | frac k =>
      simp only [Tok.chars, List.cons.injEq, true_and] at hc; subst hc
      simp [predMod]; decide
    | stray => simp [okTok] at hok
  fire := by
    intro tok h
    cases tok with
    | conv c => exact ⟨[c], rfl, fun rest => by simpa [predMod, hitMod] using h⟩
    | _ => simp [hitMod] at h

theorem hitSpec_frac (k : Frac) : HitSpec (startsWith ['Q', k.letter, 's']) (hitFrac k) where
  safe := by
    intro rest h
    cases rest with
    | nil => rfl
    | cons c r =>
      simp only [headSafe, Bool.not_eq_true'] at h
      simp only [startsWith, List.isPrefixOf, Bool.and_eq_false_imp, beq_iff_eq]
      intro e; subst e; exact absurd h (by decide)
  miss := by
    intro tok tail rest hok hne hh hc
    cases tok with
    | lit c => simp [Tok.chars] at hc; exact absurd hc.1 (okTok_lit c hok)
    | pct => exact absurd rfl hne
    | conv c =>
      simp only [okTok, Bool.and_eq_true] at hok
      simp only [Tok.chars, List.cons.injEq, true_and] at hc; subst hc
      have : c ≠ 'Q' := by intro e; subst e; revert hok; decide
      simp [startsWith, List.isPrefixOf, Ne.symm this]
    | mod m c =>
      simp only [okTok, Bool.and_eq_true] at hok
      obtain ⟨hm, _, _⟩ := isModConv_cases m c hok.1
      simp only [Tok.chars, List.cons.injEq, true_and] at hc; subst hc
      rcases hm with rfl | rfl <;> simp [startsWith, List.isPrefixOf]
    | frac k' =>
      simp only [Tok.chars, List.cons.injEq, true_and] at hc; subst hc
      simp only [hitFrac, beq_eq_false_iff_ne] at hh
      cases k <;> cases k' <;> simp_all [startsWith, List.isPrefixOf, Frac.letter]
    | stray => simp [okTok] at hok
  fire := by
    intro tok h
    cases tok with
    | frac k' =>
      simp only [hitFrac, beq_iff_eq] at h; subst h
      exact ⟨['Q', k.letter, 's'], rfl, fun rest => by simp [startsWith, List.isPrefixOf]⟩
    | _ => simp [hitFrac] at h

end Time
