import QuillModel.Time.PartsProofs
import QuillModel.Time.CivilProofs
/-!
# Recalculation windows

Between two recalculation points (half days in GMT mode, periods of `P` seconds in local-time mode) the civil
day, AM/PM and the zone data of the broken-down time do not change and the second of the day advances with the
instant — in local-time mode under the explicit zone premise `ZoneOK`. Static tokens render the same throughout
a window; the seven modifier fields render to what the patch switch writes.
-/
namespace Time

/-- **the zone premise of the local-time theorem**: the recalculation period divides a half day, the zone data
    is constant on every period `[kP, (k+1)P)` and every offset is a multiple of the period (and not below
    minus thirty-one years, so that local time is not negative in the range of the property) -/
structure ZoneOK (P : Nat) (tz : Nat → ZInfo) : Prop where
  pos : 0 < P
  div : 43200 % P = 0
  const : ∀ t t', t / P = t' / P → tz t = tz t'
  aligned : ∀ t, (tz t).off % (P : Int) = 0
  lower : ∀ t, -(978307200 : Int) ≤ (tz t).off

/-- width of the recalculation window -/
def Wd (loc : Bool) (P : Nat) : Nat := if loc then P else 43200

theorem tmOf_gmt (tz : Nat → ZInfo) (t : Nat) :
    (tmOf false tz t).days = t / 86400 ∧ (tmOf false tz t).sod = t % 86400 ∧ (tmOf false tz t).zi = gmtZ ∧
    (tmOf false tz t).epoch = t := by
  simp [tmOf, gmtime, mkTm, gmtZ]

theorem tmOf_local (tz : Nat → ZInfo) (t : Nat) :
    (tmOf true tz t).days = ((t : Int) + (tz t).off).toNat / 86400 ∧
    (tmOf true tz t).sod = ((t : Int) + (tz t).off).toNat % 86400 ∧ (tmOf true tz t).zi = tz t ∧
    (tmOf true tz t).epoch = t := by
  simp [tmOf, mkTm]

theorem tmOf_sod_lt (loc : Bool) (tz : Nat → ZInfo) (t : Nat) : (tmOf loc tz t).sod < 86400 := by
  cases loc
  · rw [(tmOf_gmt tz t).2.1]; omega
  · rw [(tmOf_local tz t).2.1]; omega

theorem tmOf_epoch (loc : Bool) (tz : Nat → ZInfo) (t : Nat) : (tmOf loc tz t).epoch = t := by
  cases loc
  · exact (tmOf_gmt tz t).2.2.2
  · exact (tmOf_local tz t).2.2.2

/-- local seconds in the same `P`-window stay in the same half day -/
theorem local_same_halfday (P : Nat) (hP : 0 < P) (hdiv : 43200 % P = 0) (off : Int) (hoff : off % (P : Int) = 0)
    (c t : Nat) (hc : 0 ≤ (c : Int) + off) (hct : c ≤ t) (hw : t / P = c / P) :
    ((t : Int) + off).toNat / 43200 = ((c : Int) + off).toNat / 43200 ∧
    ((t : Int) + off).toNat = ((c : Int) + off).toNat + (t - c) := by
  obtain ⟨k, hk⟩ : ∃ k : Int, off = (P : Int) * k := Int.dvd_of_emod_eq_zero hoff
  have hPi : (P : Int) ≠ 0 := by omega
  have e2 : ((t : Int) + off).toNat = ((c : Int) + off).toNat + (t - c) := by omega
  refine ⟨?_, e2⟩
  -- divide by P first
  have dP : ∀ x : Nat, 0 ≤ (x : Int) + off → ((((x : Int) + off).toNat / P : Nat) : Int) = ((x / P : Nat) : Int) + k := by
    intro x hx
    rw [Int.natCast_ediv, Int.toNat_of_nonneg hx, hk, Int.add_mul_ediv_left _ _ hPi, Int.natCast_ediv]
  have ht : 0 ≤ (t : Int) + off := by omega
  have e1 : ((t : Int) + off).toNat / P = ((c : Int) + off).toNat / P := by
    have h1 := dP t ht
    have h2 := dP c hc
    rw [hw] at h1
    omega
  obtain ⟨q, hq⟩ : ∃ q, 43200 = P * q := ⟨43200 / P, by
    have := Nat.div_add_mod 43200 P; omega⟩
  rw [hq, ← Nat.div_div_eq_div_mul, ← Nat.div_div_eq_div_mul, e1]

/-- **within one recalculation window** the day, AM/PM and zone data are those of the cached instant and the
    second of the day has advanced by the difference of the instants -/
theorem same_window (loc : Bool) (P : Nat) (tz : Nat → ZInfo) (hz : loc = true → ZoneOK P tz) (c t : Nat)
    (hc : 978307200 ≤ c) (hct : c ≤ t) (hw : t / Wd loc P = c / Wd loc P) :
    (tmOf loc tz t).days = (tmOf loc tz c).days ∧ (tmOf loc tz t).pm = (tmOf loc tz c).pm ∧
    (tmOf loc tz t).zi = (tmOf loc tz c).zi ∧ (tmOf loc tz t).sod = (tmOf loc tz c).sod + (t - c) := by
  cases loc with
  | false =>
    simp only [Wd, Bool.false_eq_true, if_false] at hw
    obtain ⟨d1, s1, z1, _⟩ := tmOf_gmt tz t
    obtain ⟨d0, s0, z0, _⟩ := tmOf_gmt tz c
    simp only [Tm.pm, d1, s1, z1, d0, s0, z0]
    refine ⟨by omega, ?_, by first | rfl | trivial, by omega⟩
    first | (congr 1; apply propext; omega) | (simp only [decide_eq_decide]; omega) | omega
  | true =>
    simp only [Wd, if_true] at hw
    have z := hz rfl
    obtain ⟨d1, s1, z1, _⟩ := tmOf_local tz t
    obtain ⟨d0, s0, z0, _⟩ := tmOf_local tz c
    have hzi : tz t = tz c := z.const t c hw
    have hlow := z.lower c
    obtain ⟨h1, h2⟩ := local_same_halfday P z.pos z.div (tz c).off (z.aligned c) c t (by omega) hct hw
    simp only [Tm.pm, d1, s1, z1, d0, s0, z0, hzi]
    generalize ((t : Int) + (tz c).off).toNat = lt at h1 h2
    generalize ((c : Int) + (tz c).off).toNat = lc at h1 h2
    refine ⟨by omega, ?_, by first | rfl | trivial, by omega⟩
    first | (congr 1; apply propext; omega) | (simp only [decide_eq_decide]; omega) | omega

/-- an instant between the cached one and the next recalculation point is in the cached one's window -/
theorem window_of_bounds (W c t : Nat) (hct : c ≤ t) (hlt : t < (c / W + 1) * W) : t / W = c / W := by
  rcases Nat.eq_zero_or_pos W with h0 | hW
  · subst h0; simp
  · apply Nat.div_eq_of_lt_le
    · exact Nat.le_trans (Nat.div_mul_le_self c W) hct
    · exact hlt

theorem Wd_pos (loc : Bool) (P : Nat) (hP : loc = true → 0 < P) : 0 < Wd loc P := by
  cases loc
  · simp [Wd]
  · simpa [Wd] using hP rfl

theorem lt_next_window (W t : Nat) (hW : 0 < W) : t < (t / W + 1) * W := by
  rw [Nat.mul_comm]; exact Nat.lt_mul_div_succ t hW

/-! ### static tokens in a window -/

theorem static_not_time : ∀ c, staticConvs.contains c = true → timeConvs.contains c = false := by
  have h : staticConvs.all (fun c => !timeConvs.contains c) = true := by decide
  intro c hc
  rw [List.all_eq_true] at h
  have := h c (by simpa using hc)
  simpa using this

theorem renderConv_static (c : Char) (hc : staticConvs.contains c = true) (tm : Tm) :
    renderConv c tm = renderStatic c tm.days tm.pm tm.zi := by
  simp only [renderConv, static_not_time c hc, Bool.false_eq_true, if_false]

theorem renderTokPlain_static (t : Tok) (hs : isStaticTok t = true) (tm0 tm1 : Tm)
    (hd : tm1.days = tm0.days) (hp : tm1.pm = tm0.pm) (hz : tm1.zi = tm0.zi) :
    renderTokPlain tm1 t = renderTokPlain tm0 t := by
  cases t with
  | conv c => simp only [renderTokPlain, renderConv_static c hs, hd, hp, hz]
  | mod m c => simp only [renderTokPlain, renderConv_static c hs, hd, hp, hz]
  | _ => rfl

theorem flatMap_congr' {α β : Type} (f g : α → List β) : ∀ (l : List α), (∀ x ∈ l, f x = g x) →
    l.flatMap f = l.flatMap g := by
  intro l
  induction l with
  | nil => intro _; rfl
  | cons x xs ih =>
    intro h
    simp only [List.flatMap_cons]
    rw [h x (by simp), ih (fun y hy => h y (by simp [hy]))]

theorem static_part_stable (a : List Tok) (hok : okToks a = true) (hs : ∀ t ∈ a, isStaticTok t = true) (tm0 tm1 : Tm)
    (hd : tm1.days = tm0.days) (hp : tm1.pm = tm0.pm) (hz : tm1.zi = tm0.zi) :
    safeStrftime (charsOf a) tm0 = safeStrftime (charsOf a) tm1 := by
  rw [safeStrftime_charsOf a hok, safeStrftime_charsOf a hok]
  apply flatMap_congr'
  intro t ht
  exact (renderTokPlain_static t (hs t ht) tm0 tm1 hd hp hz).symm

/-! ### the seven fields -/

theorem Tm.hour_lt (tm : Tm) (h : tm.sod < 86400) : tm.hour < 24 := by simp only [Tm.hour]; omega
theorem Tm.min_lt (tm : Tm) : tm.min < 60 := by simp only [Tm.min]; omega
theorem Tm.sec_lt (tm : Tm) : tm.sec < 60 := by simp only [Tm.sec]; omega

theorem hour12_le (h : Nat) : hour12 h ≤ 12 := by unfold hour12; split <;> omega

/-- **what a field renders to is what the patch switch writes**, with the field's width -/
theorem field_render (ft : FT) (tm : Tm) (hsod : tm.sod < 86400)
    (hs : ft = .s → 1000000000 ≤ tm.epoch ∧ tm.epoch < 10000000000) :
    renderConv ft.char tm = patchText ft tm.hour tm.min tm.sec tm.epoch ∧
    (patchText ft tm.hour tm.min tm.sec tm.epoch).length = ft.back := by
  have hh := Tm.hour_lt tm hsod
  have hm := Tm.min_lt tm
  have hsec := Tm.sec_lt tm
  cases ft with
  | H => exact ⟨by simp [FT.char, renderConv, renderTime, timeConvs, patchText], padNum_two_length _ _ (by omega)⟩
  | M => exact ⟨by simp [FT.char, renderConv, renderTime, timeConvs, patchText], padNum_two_length _ _ (by omega)⟩
  | S => exact ⟨by simp [FT.char, renderConv, renderTime, timeConvs, patchText], padNum_two_length _ _ (by omega)⟩
  | I =>
    have := hour12_le tm.hour
    refine ⟨?_, ?_⟩
    · simp only [patchText, hour12_eq tm.hour hh]
      simp [FT.char, renderConv, renderTime, timeConvs]
    · simp only [patchText, hour12_eq tm.hour hh]
      exact padNum_two_length _ _ (by omega)
  | k => exact ⟨by simp [FT.char, renderConv, renderTime, timeConvs, patchText], padNum_two_length _ _ (by omega)⟩
  | l =>
    have := hour12_le tm.hour
    refine ⟨?_, ?_⟩
    · simp only [patchText, hour12_eq tm.hour hh]
      simp [FT.char, renderConv, renderTime, timeConvs]
    · simp only [patchText, hour12_eq tm.hour hh]
      exact padNum_two_length _ _ (by omega)
  | s =>
    obtain ⟨h1, h2⟩ := hs rfl
    refine ⟨?_, ?_⟩
    · simp only [patchText, padNum_ten_eq _ _ h1 h2]
      simp [FT.char, renderConv, renderTime, timeConvs]
    · simp only [patchText, padNum_ten_eq _ _ h1 h2]
      exact natDigits_ten_length _ h1 h2

end Time
