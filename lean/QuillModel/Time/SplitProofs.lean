import QuillModel.Time.ScanProofs
/-!
# `_split_timestamp_format_once` as written = the first modifier in reading order

The C++ searches each of the seven modifiers separately, collects the hits in a `std::map` keyed by position and
cuts at the smallest position (`splitOnceCpp`). That is the first position at which a `'%'` is followed by a
modifier letter (`splitOnce`), which is what the other proofs work with: `splitOnceCpp_eq`.
-/
namespace Time

/-! ### the smallest entry -/

def minStep (acc : Option (Nat × FT)) (e : Nat × FT) : Option (Nat × FT) :=
  match acc with
  | none => some e
  | some a => if e.1 < a.1 then some e else some a

theorem minEntry_eq (found : List (Nat × FT)) : minEntry found = found.foldl minStep none := rfl

theorem foldl_minStep_some (l : List (Nat × FT)) : ∀ (a : Nat × FT),
    ∃ m, l.foldl minStep (some a) = some m ∧ (m = a ∨ m ∈ l) ∧ m.1 ≤ a.1 ∧ ∀ e ∈ l, m.1 ≤ e.1 := by
  induction l with
  | nil => intro a; exact ⟨a, rfl, Or.inl rfl, Nat.le_refl _, by simp⟩
  | cons e es ih =>
    intro a
    simp only [List.foldl_cons, minStep]
    by_cases h : e.1 < a.1
    · simp only [h, if_true]
      obtain ⟨m, hm, hmem, hle, hall⟩ := ih e
      refine ⟨m, hm, Or.inr ?_, by omega, ?_⟩
      · rcases hmem with rfl | hmem
        · simp
        · simp [hmem]
      · intro x hx
        simp only [List.mem_cons] at hx
        rcases hx with rfl | hx
        · exact hle
        · exact hall x hx
    · simp only [h, if_false]
      obtain ⟨m, hm, hmem, hle, hall⟩ := ih a
      refine ⟨m, hm, ?_, hle, ?_⟩
      · rcases hmem with rfl | hmem
        · exact Or.inl rfl
        · exact Or.inr (by simp [hmem])
      · intro x hx
        simp only [List.mem_cons] at hx
        rcases hx with rfl | hx
        · omega
        · exact hall x hx

/-- `begin()` of the map: a member with the smallest position -/
theorem minEntry_spec (l : List (Nat × FT)) :
    (l = [] ∧ minEntry l = none) ∨ ∃ m, minEntry l = some m ∧ m ∈ l ∧ ∀ e ∈ l, m.1 ≤ e.1 := by
  cases l with
  | nil => exact Or.inl ⟨rfl, rfl⟩
  | cons a es =>
    right
    obtain ⟨m, hm, hmem, hle, hall⟩ := foldl_minStep_some es a
    refine ⟨m, by simpa [minEntry_eq, minStep] using hm, ?_, ?_⟩
    · rcases hmem with rfl | hmem
      · simp
      · simp [hmem]
    · intro x hx
      simp only [List.mem_cons] at hx
      rcases hx with rfl | hx
      · exact hle
      · exact hall x hx

def shiftE (e : Nat × FT) : Nat × FT := (e.1 + 1, e.2)

theorem foldl_minStep_shift (found : List (Nat × FT)) : ∀ (acc : Option (Nat × FT)),
    (found.map shiftE).foldl minStep (acc.map shiftE) = (found.foldl minStep acc).map shiftE := by
  induction found with
  | nil => intro acc; rfl
  | cons e es ih =>
    intro acc
    simp only [List.map_cons, List.foldl_cons]
    cases acc with
    | none => exact ih (some e)
    | some a =>
      simp only [Option.map_some, shiftE, minStep]
      by_cases h : e.1 < a.1
      · have h' : e.1 + 1 < a.1 + 1 := by omega
        simp only [h, h', if_true]
        exact ih (some e)
      · have h' : ¬ (e.1 + 1 < a.1 + 1) := by omega
        simp only [h, h', if_false]
        exact ih (some a)

theorem minEntry_shift (found : List (Nat × FT)) : minEntry (found.map shiftE) = (minEntry found).map shiftE :=
  foldl_minStep_shift found none

/-! ### the per-modifier searches -/

def allFT : List FT := [FT.H, FT.M, FT.S, FT.I, FT.k, FT.l, FT.s]

def foundOf (fmt : List Char) : List (Nat × FT) :=
  allFT.filterMap (fun ft => (findPct ft.char fmt).map (fun i => (i, ft)))

theorem splitOnceCpp_def (fmt : List Char) :
    splitOnceCpp fmt = match minEntry (foundOf fmt) with
      | none => none
      | some (i, ft) => some (fmt.take i, ft, fmt.drop (i + 2)) := rfl

theorem findPct_cons (x c : Char) (rest : List Char) :
    findPct x (c :: rest) =
      if c = '%' ∧ startsWith [x] rest = true then some 0 else (findPct x rest).map (· + 1) := by
  simp only [findPct, findAt_cons]
  split
  · rfl
  · cases findAt (startsWith [x]) rest <;> simp

theorem startsWith_single (x : Char) (rest : List Char) :
    startsWith [x] rest = true ↔ ∃ r, rest = x :: r := by
  cases rest with
  | nil => simp [startsWith, List.isPrefixOf]
  | cons d r =>
    simp only [startsWith, List.isPrefixOf, Bool.and_true, beq_iff_eq, List.cons.injEq]
    constructor
    · intro h; exact ⟨r, h.symm, rfl⟩
    · rintro ⟨r', h1, _⟩; exact h1.symm

theorem FT.char_inj (a b : FT) (h : a.char = b.char) : a = b := by
  cases a <;> cases b <;> first | rfl | (revert h; decide)

theorem FT.ofChar_eq_some (c : Char) (ft : FT) : FT.ofChar c = some ft ↔ ft.char = c := by
  constructor
  · intro h
    unfold FT.ofChar at h
    repeat' split at h
    all_goals first | (cases h; subst_vars; rfl) | cases h
  · intro h; subst h; cases ft <;> rfl

theorem mem_allFT (ft : FT) : ft ∈ allFT := by cases ft <;> simp [allFT]

/-- no hit at the front: every search result moves one to the right -/
theorem foundOf_cons_miss (c : Char) (rest : List Char)
    (h : ∀ ft : FT, ¬ (c = '%' ∧ startsWith [ft.char] rest = true)) :
    foundOf (c :: rest) = (foundOf rest).map shiftE := by
  simp only [foundOf, List.map_filterMap]
  congr 1
  funext ft
  rw [findPct_cons, if_neg (h ft)]
  cases findPct ft.char rest <;> simp [shiftE]

/-- **the C++ search is the first modifier in reading order** -/
theorem splitOnceCpp_eq : ∀ (fmt : List Char), splitOnceCpp fmt = splitOnce fmt := by
  intro fmt
  induction fmt with
  | nil => rfl
  | cons c rest ih =>
    have hsplit : splitOnce (c :: rest) =
        match findAt predMod (c :: rest) with
        | some (p1, d :: r) => (FT.ofChar d).map (fun ft => (p1, ft, r))
        | _ => none := rfl
    have hsplit' : splitOnce rest =
        match findAt predMod rest with
        | some (p1, d :: r) => (FT.ofChar d).map (fun ft => (p1, ft, r))
        | _ => none := rfl
    by_cases hhit : c = '%' ∧ predMod rest = true
    · -- a modifier right here
      obtain ⟨hc, hp⟩ := hhit
      subst hc
      cases rest with
      | nil => simp [predMod] at hp
      | cons d r =>
        simp only [predMod, isModifier] at hp
        obtain ⟨ft0, hft0⟩ := Option.isSome_iff_exists.mp hp
        have hd : ft0.char = d := (FT.ofChar_eq_some d ft0).1 hft0
        rw [hsplit, findAt_pct_hit _ _ (by simpa [predMod, isModifier] using hp)]
        simp only [hft0, Option.map_some]
        rw [splitOnceCpp_def]
        -- (0, ft0) is found, every other entry is at a later position
        have hmem : (0, ft0) ∈ foundOf ('%' :: d :: r) := by
          simp only [foundOf, List.mem_filterMap]
          refine ⟨ft0, mem_allFT ft0, ?_⟩
          rw [findPct_cons, if_pos ⟨rfl, (startsWith_single _ _).2 ⟨r, by rw [hd]⟩⟩]
          rfl
        have hzero : ∀ e ∈ foundOf ('%' :: d :: r), e.1 = 0 → e = (0, ft0) := by
          intro e he h0
          simp only [foundOf, List.mem_filterMap] at he
          obtain ⟨ft, _, hft⟩ := he
          rw [findPct_cons] at hft
          by_cases hs : ('%' : Char) = '%' ∧ startsWith [ft.char] (d :: r) = true
          · rw [if_pos hs] at hft
            obtain ⟨r', hr'⟩ := (startsWith_single _ _).1 hs.2
            have : ft.char = d := by cases hr'; rfl
            have : ft = ft0 := FT.char_inj _ _ (by rw [this, hd])
            subst this
            simpa using hft.symm
          · rw [if_neg hs] at hft
            cases hf : findPct ft.char (d :: r) with
            | none => simp [hf] at hft
            | some i =>
              simp only [hf, Option.map_some, Option.some.injEq] at hft
              rw [← hft] at h0; simp at h0
        rcases minEntry_spec (foundOf ('%' :: d :: r)) with ⟨he, _⟩ | ⟨m, hm, hmm, hmin⟩
        · rw [he] at hmem; simp at hmem
        · have h0 : m.1 = 0 := by have := hmin _ hmem; simp at this; omega
          have := hzero m hmm h0
          subst this
          simp [hm]
    · -- no modifier here: both sides recurse
      have hmiss : ∀ ft : FT, ¬ (c = '%' ∧ startsWith [ft.char] rest = true) := by
        intro ft hh
        apply hhit
        refine ⟨hh.1, ?_⟩
        obtain ⟨r, hr⟩ := (startsWith_single _ _).1 hh.2
        subst hr
        simp [predMod, isModifier, (FT.ofChar_eq_some ft.char ft).2 rfl]
      rw [splitOnceCpp_def, foundOf_cons_miss c rest hmiss, minEntry_shift, hsplit, findAt_cons, if_neg hhit]
      have ih' := ih
      rw [splitOnceCpp_def, hsplit'] at ih'
      cases hme : minEntry (foundOf rest) with
      | none =>
        rw [hme] at ih'
        cases hf : findAt predMod rest with
        | none => rfl
        | some ab =>
          obtain ⟨a, b⟩ := ab
          rw [hf] at ih'
          cases b with
          | nil => rfl
          | cons d r =>
            simp only at ih'
            cases ho : FT.ofChar d with
            | none => simp [ho]
            | some ft => rw [ho] at ih'; simp at ih'
      | some m =>
        obtain ⟨i, ft⟩ := m
        rw [hme] at ih'
        cases hf : findAt predMod rest with
        | none => rw [hf] at ih'; simp at ih'
        | some ab =>
          obtain ⟨a, b⟩ := ab
          rw [hf] at ih'
          cases b with
          | nil => simp at ih'
          | cons d r =>
            simp only at ih'
            cases ho : FT.ofChar d with
            | none => rw [ho] at ih'; simp at ih'
            | some ft' =>
              rw [ho] at ih'
              simp only [Option.map_some, Option.some.injEq, Prod.mk.injEq] at ih'
              obtain ⟨h1, h2, h3⟩ := ih'
              subst h2
              simp [shiftE, ho, h1, h3]

/-! ### `_replace_all` as written = the one-pass rewrite -/

theorem findAt_some_decomp (pred : List Char → Bool) : ∀ (s a b : List Char), findAt pred s = some (a, b) →
    s = a ++ '%' :: b := by
  intro s
  induction s with
  | nil => intro a b h; simp [findAt] at h
  | cons c rest ih =>
    intro a b h
    rw [findAt_cons] at h
    by_cases hc : c = '%' ∧ pred rest = true
    · rw [if_pos hc] at h
      simp only [Option.some.injEq, Prod.mk.injEq] at h
      obtain ⟨rfl, rfl⟩ := h
      simp [hc.1]
    · rw [if_neg hc] at h
      cases hf : findAt pred rest with
      | none => simp [hf] at h
      | some ab =>
        obtain ⟨a', b'⟩ := ab
        simp only [hf, Option.map_some, Option.some.injEq, Prod.mk.injEq] at h
        obtain ⟨rfl, rfl⟩ := h
        simp [ih a' b' hf]

theorem replaceAll_nil' (c : Char) (new : List Char) : replaceAll c new [] = [] := by rw [replaceAll.eq_def]

/-- the one-pass rewrite satisfies the loop equation of the C++ -/
theorem replaceAll_find (c : Char) (new : List Char) : ∀ (s : List Char),
    replaceAll c new s =
      match findAt (startsWith [c]) s with
      | none => s
      | some (a, b) => a ++ new ++ replaceAll c new (b.drop 1) := by
  intro s
  induction s with
  | nil => simp [findAt, replaceAll_nil']
  | cons x rest ih =>
    rw [findAt_cons]
    by_cases hx : x = '%' ∧ startsWith [c] rest = true
    · obtain ⟨hx1, hx2⟩ := hx
      obtain ⟨r, hr⟩ := (startsWith_single _ _).1 hx2
      subst hx1; subst hr
      rw [if_pos ⟨rfl, hx2⟩, replaceAll.eq_def]
      simp
    · rw [if_neg hx]
      have hstep : replaceAll c new (x :: rest) = x :: replaceAll c new rest := by
        rw [replaceAll.eq_def]
        cases rest with
        | nil => simp [replaceAll_nil']
        | cons b r =>
          have : ¬ (x = '%' ∧ b = c) := by
            intro hh
            exact hx ⟨hh.1, (startsWith_single _ _).2 ⟨r, by rw [hh.2]⟩⟩
          simp [this]
      rw [hstep, ih]
      cases findAt (startsWith [c]) rest with
      | none => rfl
      | some ab => obtain ⟨a, b⟩ := ab; simp

/-- **the loop of `_replace_all` computes the one-pass rewrite** -/
theorem replaceAllCppF_eq (c : Char) (new : List Char) : ∀ (f : Nat) (s : List Char), s.length ≤ f →
    replaceAllCppF f c new s = replaceAll c new s := by
  intro f
  induction f with
  | zero =>
    intro s h
    have : s = [] := List.eq_nil_of_length_eq_zero (by omega)
    subst this
    simp [replaceAllCppF, replaceAll_nil']
  | succ f ih =>
    intro s h
    rw [replaceAll_find c new s]
    simp only [replaceAllCppF]
    cases hf : findAt (startsWith [c]) s with
    | none => rfl
    | some ab =>
      obtain ⟨a, b⟩ := ab
      have hd := findAt_some_decomp _ s a b hf
      have hlen : (b.drop 1).length ≤ f := by
        have : s.length = a.length + 1 + b.length := by rw [hd]; simp; omega
        simp only [List.length_drop]; omega
      simp only [ih _ hlen]

theorem replaceAllCpp_eq (c : Char) (new : List Char) (s : List Char) : replaceAllCpp c new s = replaceAll c new s :=
  replaceAllCppF_eq c new s.length s (Nat.le_refl _)

end Time
