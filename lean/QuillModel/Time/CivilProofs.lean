import QuillModel.Time.Cache
/-!
# Civil-date round trip and the GMT recalculation point

`daysFromCivil (civilFromDays z) = z` for every day number (so `timegm ∘ gmtime` is the identity on the date
part), field ranges of `civilFromDays`, and `_next_noon_or_midnight_timestamp t = (t / 43200 + 1) * 43200`:
the next recalculation point in GMT mode is the end of the half day that contains `t`.
-/
namespace Time

set_option maxRecDepth 4000 in
/-- year of era: the estimate is exact -/
theorem yoe_bounds (doe : Nat) (h : doe < 146097) :
    let yoe := (doe - doe / 1460 + doe / 36524 - doe / 146096) / 365
    365 * yoe + yoe / 4 - yoe / 100 ≤ doe ∧ doe - (365 * yoe + yoe / 4 - yoe / 100) ≤ 365 ∧ yoe ≤ 399 := by
  intro yoe
  have he : doe / 36524 = 0 ∨ doe / 36524 = 1 ∨ doe / 36524 = 2 ∨ doe / 36524 = 3 ∨ doe / 36524 = 4 := by omega
  have hf : doe / 146096 = 0 ∨ doe / 146096 = 1 := by omega
  have hy : yoe / 100 = 0 ∨ yoe / 100 = 1 ∨ yoe / 100 = 2 ∨ yoe / 100 = 3 ∨ yoe / 100 = 4 := by omega
  rcases he with he | he | he | he | he <;> rcases hf with hf | hf <;> rcases hy with hy | hy | hy | hy | hy <;> omega

/-- month and day from the day of the (March-based) year, and back -/
theorem doy_roundtrip (doy : Nat) (h : doy ≤ 365) :
    let mp := (5 * doy + 2) / 153
    let d := doy - (153 * mp + 2) / 5 + 1
    mp ≤ 11 ∧ (153 * mp + 2) / 5 ≤ doy ∧ 1 ≤ d ∧ d ≤ 31 ∧ (153 * mp + 2) / 5 + d - 1 = doy := by
  intro mp d
  have hmp : mp ≤ 11 := by omega
  have : mp = 0 ∨ mp = 1 ∨ mp = 2 ∨ mp = 3 ∨ mp = 4 ∨ mp = 5 ∨ mp = 6 ∨ mp = 7 ∨ mp = 8 ∨ mp = 9 ∨ mp = 10 ∨ mp = 11 := by
    omega
  rcases this with h | h | h | h | h | h | h | h | h | h | h | h <;> omega

/-- `civilFromDays` in terms of era / year of era / day of year, with the facts that make it invertible -/
theorem civilFromDays_spec (z : Nat) :
    ∃ era yoe doy mp : Nat,
      z + 719468 = era * 146097 + (365 * yoe + yoe / 4 - yoe / 100 + doy) ∧ yoe ≤ 399 ∧ doy ≤ 365 ∧
      mp = (5 * doy + 2) / 153 ∧
      civilFromDays z =
        { year := if (if mp < 10 then mp + 3 else mp - 9) ≤ 2 then yoe + era * 400 + 1 else yoe + era * 400,
          mon := if mp < 10 then mp + 3 else mp - 9,
          day := doy - (153 * mp + 2) / 5 + 1 } := by
  have hdoe : (z + 719468) % 146097 < 146097 := Nat.mod_lt _ (by decide)
  have hy := yoe_bounds ((z + 719468) % 146097) hdoe
  simp only at hy
  refine ⟨(z + 719468) / 146097,
    ((z + 719468) % 146097 - (z + 719468) % 146097 / 1460 + (z + 719468) % 146097 / 36524 - (z + 719468) % 146097 / 146096) / 365,
    (z + 719468) % 146097 - (365 * (((z + 719468) % 146097 - (z + 719468) % 146097 / 1460 + (z + 719468) % 146097 / 36524 - (z + 719468) % 146097 / 146096) / 365) +
      (((z + 719468) % 146097 - (z + 719468) % 146097 / 1460 + (z + 719468) % 146097 / 36524 - (z + 719468) % 146097 / 146096) / 365) / 4 -
      (((z + 719468) % 146097 - (z + 719468) % 146097 / 1460 + (z + 719468) % 146097 / 36524 - (z + 719468) % 146097 / 146096) / 365) / 100),
    _, ?_, hy.2.2, hy.2.1, rfl, rfl⟩
  have := Nat.div_add_mod (z + 719468) 146097
  generalize (z + 719468) % 146097 = doe at hy this ⊢
  generalize (doe - doe / 1460 + doe / 36524 - doe / 146096) / 365 = yoe at hy ⊢
  omega

/-- **civil round trip**: `timegm` of the date `gmtime` produced is the day it came from -/
theorem daysFromCivil_civilFromDays (z : Nat) :
    daysFromCivil (civilFromDays z).year (civilFromDays z).mon (civilFromDays z).day = z := by
  obtain ⟨era, yoe, doy, mp, hz, hy, hd, hmp, hc⟩ := civilFromDays_spec z
  have hr := doy_roundtrip doy hd
  simp only [← hmp] at hr
  obtain ⟨hm1, hm2, hd1, hd2, hd3⟩ := hr
  rw [hc]
  unfold daysFromCivil
  dsimp only
  by_cases hlt : mp < 10
  · have hm : ¬ (mp + 3 ≤ 2) := by omega
    have e3 : mp + 3 > 2 := by omega
    simp only [hlt, if_true, hm, if_false, e3, Nat.add_sub_cancel]
    have e1 : (yoe + era * 400) / 400 = era := by omega
    have e2 : (yoe + era * 400) % 400 = yoe := by omega
    rw [e1, e2]
    omega
  · have hm : mp - 9 ≤ 2 := by omega
    have hm' : ¬ (mp - 9 > 2) := by omega
    simp only [hlt, if_false, hm, if_true, hm', Nat.add_sub_cancel]
    have e1 : (yoe + era * 400) / 400 = era := by omega
    have e2 : (yoe + era * 400) % 400 = yoe := by omega
    have e4 : mp - 9 + 9 = mp := by omega
    rw [e1, e2, e4]
    omega

/-- month and day of month are in range -/
theorem civilFromDays_ranges (z : Nat) :
    1 ≤ (civilFromDays z).mon ∧ (civilFromDays z).mon ≤ 12 ∧ 1 ≤ (civilFromDays z).day ∧ (civilFromDays z).day ≤ 31 := by
  obtain ⟨era, yoe, doy, mp, hz, hy, hd, hmp, hc⟩ := civilFromDays_spec z
  have hr := doy_roundtrip doy hd
  simp only [← hmp] at hr
  obtain ⟨hm1, hm2, hd1, hd2, hd3⟩ := hr
  rw [hc]
  refine ⟨?_, ?_, hd1, hd2⟩ <;> dsimp only <;> split <;> omega

/-! ### the GMT recalculation point -/

theorem gmtime_days (t : Nat) : (gmtime t).days = t / 86400 := by
  simp [gmtime, mkTm, gmtZ]

theorem gmtime_sod (t : Nat) : (gmtime t).sod = t % 86400 := by
  simp [gmtime, mkTm, gmtZ]

/-- **`_next_noon_or_midnight_timestamp`** (gmtime, set 11:59:59 / 23:59:59, timegm, + 1) is the end of the
    half day containing `t` -/
theorem nextNoonOrMidnight_eq (t : Nat) : nextNoonOrMidnight t = (t / 43200 + 1) * 43200 := by
  simp only [nextNoonOrMidnight, yearOf, monOf, mdayOf, daysFromCivil_civilFromDays, gmtime_days, Tm.hour, gmtime_sod]
  split <;> omega

theorem nextNoonOrMidnight_gt (t : Nat) : t < nextNoonOrMidnight t := by
  rw [nextNoonOrMidnight_eq]; omega

end Time
