import QuillModel.Time.RewriteProofs
import QuillModel.Time.SplitProofs
import QuillModel.Time.PatchProofs
/-!
# The initial parts

`populateParts` applied to the (rewritten) pattern yields parts that are either one of the seven modifiers
(`"%H"` …) or the character form of a run of static tokens, and rendering the parts one after the other is
rendering the pattern.
-/
namespace Time

theorem FT.ofChar_char (ft : FT) : FT.ofChar ft.char = some ft := by cases ft <;> rfl

theorem FT.char_of_ofChar (c : Char) (ft : FT) (h : FT.ofChar c = some ft) : ft.char = c := by
  unfold FT.ofChar at h
  repeat' split at h
  all_goals first | (cases h; subst_vars; rfl) | cases h

theorem FT.char_ne_pct (ft : FT) : ft.char ≠ '%' := by cases ft <;> decide

theorem isModifier_char (ft : FT) : isModifier ft.char = true := by simp [isModifier, FT.ofChar_char]

theorem partType_eq_some (p : List Char) (ft : FT) : partType p = some ft ↔ p = ['%', ft.char] := by
  constructor
  · intro h
    unfold partType at h
    split at h
    · rename_i c
      rw [FT.char_of_ofChar c ft h]
    · cases h
  · intro h; subst h; simp [partType, FT.ofChar_char]

/-- plain `strftime` of the character form of canonical tokens renders the tokens -/
theorem safeStrftime_charsOf (a : List Tok) (hok : okToks a = true) (tm : Tm) :
    safeStrftime (charsOf a) tm = a.flatMap (renderTokPlain tm) := by
  unfold safeStrftime
  split
  · rename_i h
    cases a with
    | nil => rfl
    | cons t ts => simp at h; exact absurd h.1 (tok_chars_ne_nil t)
  · simp only [strftimePlain, lex_charsOf a hok]

theorem safeStrftime_field (ft : FT) (tm : Tm) : safeStrftime ['%', ft.char] tm = renderConv ft.char tm := by
  have : ['%', ft.char] = charsOf [.conv ft.char] := by simp [Tok.chars]
  rw [this, safeStrftime_charsOf _ (by cases ft <;> decide)]
  simp [renderTokPlain]

/-- a run of static canonical tokens is never mistaken for a modifier part -/
theorem static_partType_none (a : List Tok) (hok : okToks a = true) (hs : ∀ t ∈ a, hitMod t = false) :
    partType (charsOf a) = none := by
  cases hp : partType (charsOf a) with
  | none => rfl
  | some ft =>
    exfalso
    rw [partType_eq_some] at hp
    cases a with
    | nil => simp at hp
    | cons t ts =>
      simp only [okToks, Bool.and_eq_true] at hok
      have ht := hs t (by simp)
      cases t with
      | lit c => simp [Tok.chars] at hp; exact okTok_lit c hok.1 hp.1
      | pct => simp [Tok.chars] at hp; exact FT.char_ne_pct ft hp.1.symm
      | conv c =>
        simp [Tok.chars] at hp
        rw [hitMod, hp.1, isModifier_char] at ht; cases ht
      | mod m c => simp [Tok.chars] at hp
      | frac k => simp [Tok.chars] at hp
      | stray => simp [okTok] at hok

/-- what a part can be -/
def PartOK (toks : List Tok) (p : List Char) : Prop :=
  (∃ ft : FT, p = ['%', ft.char] ∧ Tok.conv ft.char ∈ toks) ∨
  (partType p = none ∧ ∃ a : List Tok, p = charsOf a ∧ okToks a = true ∧ (∀ t ∈ a, isStaticTok t = true) ∧
    ∀ t ∈ a, t ∈ toks)

theorem okToks_append (a b : List Tok) : okToks (a ++ b) = true ↔ okToks a = true ∧ okToks b = true := by
  induction a with
  | nil => simp [okToks]
  | cons t ts ih => simp [okToks, ih, and_assoc]

theorem charsOf_length_ge (toks : List Tok) : toks.length ≤ (charsOf toks).length := by
  induction toks with
  | nil => simp
  | cons t ts ih =>
    have : 1 ≤ t.chars.length := by cases t <;> simp [Tok.chars]
    simp only [charsOf_cons, List.length_append, List.length_cons]
    omega

/-- `_split_timestamp_format_once` on tokens -/
theorem splitOnce_toks (toks : List Tok) (h : supportedToks toks = true) :
    splitOnce (charsOf toks) =
      match splitHit hitMod toks with
      | some (a, .conv c, b) => (FT.ofChar c).map (fun ft => (charsOf a, ft, charsOf b))
      | _ => none := by
  have hdef : splitOnce (charsOf toks) =
      match findAt predMod (charsOf toks) with
      | some (p1, c :: rest) => (FT.ofChar c).map (fun ft => (p1, ft, rest))
      | _ => none := rfl
  rw [hdef, findAt_toks predMod hitMod hitSpec_mod toks h]
  cases hs : splitHit hitMod toks with
  | none => rfl
  | some r =>
    obtain ⟨a, x, b⟩ := r
    have hx := (splitHit_some hitMod toks a x b hs).2.1
    cases x with
    | conv c => simp [Tok.chars]
    | _ => simp [hitMod] at hx

/-- **the parts of a pattern**: rendering them is rendering the pattern, and each is a modifier or static -/
theorem populatePartsF_spec (tm : Tm) : ∀ (fuel : Nat) (toks : List Tok), toks.length < fuel →
    supportedToks toks = true → (∀ t ∈ toks, hitMod t = true ∨ isStaticTok t = true) →
    renderParts tm (populatePartsF fuel (charsOf toks)) = toks.flatMap (renderTokPlain tm) ∧
    ∀ p ∈ populatePartsF fuel (charsOf toks), PartOK toks p := by
  intro fuel
  induction fuel with
  | zero => intro toks h; omega
  | succ f ih =>
    intro toks hlen hsup hcls
    have hok := supported_ok toks hsup
    simp only [populatePartsF]
    rw [splitOnceCpp_eq, splitOnce_toks toks hsup]
    cases hs : splitHit hitMod toks with
    | none =>
      have hnone := splitHit_none hitMod toks hs
      have hstat : ∀ t ∈ toks, isStaticTok t = true := by
        intro t ht
        rcases hcls t ht with h1 | h1
        · rw [hnone t ht] at h1; cases h1
        · exact h1
      simp only
      by_cases he : charsOf toks = []
      · simp only [he, if_true]
        have : toks = [] := by
          cases toks with
          | nil => rfl
          | cons t ts => simp at he; exact absurd he.1 (tok_chars_ne_nil t)
        subst this
        simp [renderParts]
      · simp only [he, if_false]
        refine ⟨by simp [renderParts, safeStrftime_charsOf toks hok], ?_⟩
        intro p hp
        simp only [List.mem_singleton] at hp; subst hp
        exact Or.inr ⟨static_partType_none toks hok hnone, toks, rfl, hok, hstat, fun t ht => ht⟩
    | some r =>
      obtain ⟨a, x, b⟩ := r
      obtain ⟨htoks, hx, ha⟩ := splitHit_some hitMod toks a x b hs
      cases x with
      | conv c =>
        simp only [hitMod, isModifier] at hx
        obtain ⟨ft, hft⟩ := Option.isSome_iff_exists.mp hx
        have hc := FT.char_of_ofChar c ft hft
        simp only [hft, Option.map_some]
        subst htoks
        obtain ⟨hsa, hsb⟩ := supported_append a (.conv c :: b) hsup
        rw [supported_cons] at hsb
        have hoka := supported_ok a hsa
        have hlenb : b.length < f := by simp at hlen; omega
        obtain ⟨ihr, ihp⟩ := ih b hlenb hsb.2.2 (fun t ht => hcls t (by simp [ht]))
        have hstat : ∀ t ∈ a, isStaticTok t = true := by
          intro t ht
          rcases hcls t (by simp [ht]) with h1 | h1
          · rw [ha t ht] at h1; cases h1
          · exact h1
        constructor
        · have e1 : renderParts tm (if charsOf a = [] then [] else [charsOf a]) = a.flatMap (renderTokPlain tm) := by
            by_cases he : charsOf a = []
            · have : a = [] := by
                cases a with
                | nil => rfl
                | cons t ts => simp at he; exact absurd he.1 (tok_chars_ne_nil t)
              subst this; simp [renderParts]
            · simp [he, renderParts, safeStrftime_charsOf a hoka]
          have e2 : renderParts tm [['%', ft.char]] = renderConv c tm := by
            rw [← hc]; simp [renderParts, safeStrftime_field]
          have happ : ∀ x y : List (List Char), renderParts tm (x ++ y) = renderParts tm x ++ renderParts tm y := by
            intro x y; simp [renderParts]
          rw [happ, happ, e1, e2, ihr]
          simp [renderTokPlain]
        · intro p hp
          simp only [List.mem_append, List.mem_singleton] at hp
          rcases hp with (hp | hp) | hp
          · by_cases he : charsOf a = []
            · simp [he] at hp
            · simp only [he, if_false, List.mem_singleton] at hp
              subst hp
              exact Or.inr ⟨static_partType_none a hoka ha, a, rfl, hoka, hstat, fun t ht => by simp [ht]⟩
          · subst hp
            exact Or.inl ⟨ft, rfl, by simp [hc]⟩
          · rcases ihp p hp with ⟨ft', h1, h2⟩ | ⟨h1, a', h2, h3, h4, h5⟩
            · exact Or.inl ⟨ft', h1, by simp [h2]⟩
            · exact Or.inr ⟨h1, a', h2, h3, h4, fun t ht => by simp [h5 t ht]⟩
      | _ => simp [hitMod] at hx

theorem populateParts_spec (tm : Tm) (toks : List Tok) (hsup : supportedToks toks = true)
    (hcls : ∀ t ∈ toks, hitMod t = true ∨ isStaticTok t = true) :
    renderParts tm (populateParts (charsOf toks)) = toks.flatMap (renderTokPlain tm) ∧
    ∀ p ∈ populateParts (charsOf toks), PartOK toks p :=
  populatePartsF_spec tm _ toks (by have := charsOf_length_ge toks; omega) hsup hcls

end Time
