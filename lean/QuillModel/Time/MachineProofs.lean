import QuillModel.Time.WindowProofs
/-!
# The cache invariant of `StringFromTime`

`SInv`: either nothing has been formatted yet, or the pre-formatted string is the rendering of the parts at the
cached instant, the recorded positions are those of the modifier fields, the cached seconds are the second of the
day of the cached instant and the next recalculation point is the end of the cached instant's window.
`SFT.step_spec`: from any state satisfying `SInv`, for any instant of the property's range (earlier, equal or
later than the cached one), the output is plain `strftime` of the pattern at that instant, and `SInv` holds again.
-/
namespace Time

/-- instants the property quantifies over (for the pattern at hand) -/
def Good (toks : List Tok) (t : Nat) : Prop :=
  978307200 ≤ t ∧ t < 4133980800 ∧ (Tok.conv 's' ∈ toks → 1000000000 ≤ t)

/-- the cached data describe instant `c` -/
structure Cached (P : Nat) (tz : Nat → ZInfo) (loc : Bool) (toks : List Tok) (s : SFT) (c : Nat) : Prop where
  good : Good toks c
  ts : s.cachedTs = c
  pre : s.pre = renderParts (tmOf loc tz c) s.parts
  idx : s.idx = idxOf (tmOf loc tz c) s.parts 0
  secs : s.cachedSecs = (tmOf loc tz c).sod
  next : s.nextRecalc = (c / Wd loc P + 1) * Wd loc P

structure SInv (P : Nat) (tz : Nat → ZInfo) (loc : Bool) (toks : List Tok) (s : SFT) : Prop where
  fmt : s.fmt = charsOf toks
  parts : s.parts = populateParts (charsOf toks)
  mode : s.localTime = loc
  state : (s.nextRecalc = 0 ∧ s.cachedTs = 0) ∨ ∃ c, Cached P tz loc toks s c

/-- what the proofs need to know about the (rewritten) pattern and the zone -/
structure PatOK (P : Nat) (tz : Nat → ZInfo) (loc : Bool) (toks : List Tok) : Prop where
  sup : supportedToks toks = true
  cls : ∀ t ∈ toks, hitMod t = true ∨ isStaticTok t = true
  zone : loc = true → ZoneOK P tz

/-- the part of `format_timestamp` after the fallback test and the recalculation -/
def SFT.tail (s1 : SFT) (t : Nat) : SFT × List Char :=
  if s1.idx = [] then (s1, s1.pre)
  else if s1.cachedTs = t then (s1, s1.pre)
  else
    let diff := t - s1.cachedTs
    let cs := (s1.cachedSecs + diff % 4294967296) % 4294967296
    let hours := cs / 3600
    let minutes := (cs - hours * 3600) / 60
    let seconds := cs - hours * 3600 - minutes * 60
    let pre' := patchAll hours minutes seconds t s1.idx s1.pre
    ({ s1 with cachedTs := t, cachedSecs := cs, pre := pre' }, pre')

theorem SFT.step_eq (P : Nat) (tz : Nat → ZInfo) (s : SFT) (t : Nat) :
    s.step P tz t =
      if t < s.cachedTs then (s, safeStrftime s.fmt (tmOf s.localTime tz t))
      else SFT.tail (if s.nextRecalc ≤ t then s.recalc P tz t else s) t := rfl

/-- the patching branch, with the updated `_cached_seconds` named -/
theorem SFT.tail_patch (s1 : SFT) (t : Nat) (hidx : s1.idx ≠ []) (hne : s1.cachedTs ≠ t) (sod : Nat)
    (hcs : (s1.cachedSecs + (t - s1.cachedTs) % 4294967296) % 4294967296 = sod) :
    SFT.tail s1 t =
      ({ s1 with cachedTs := t, cachedSecs := sod,
                 pre := patchAll (sod / 3600) (sod % 3600 / 60) (sod % 60) t s1.idx s1.pre },
       patchAll (sod / 3600) (sod % 3600 / 60) (sod % 60) t s1.idx s1.pre) := by
  obtain ⟨_, hmin, _⟩ := hms_decompose sod
  have hsec : sod - sod / 3600 * 3600 - sod % 3600 / 60 * 60 = sod % 60 := by omega
  unfold SFT.tail
  simp only [hidx, hne, if_false, hcs, hmin, hsec]

theorem SFT.tail_nil (s1 : SFT) (t : Nat) (hidx : s1.idx = []) : SFT.tail s1 t = (s1, s1.pre) := by
  unfold SFT.tail; simp only [hidx, if_true]

theorem SFT.tail_same (s1 : SFT) (t : Nat) (hidx : s1.idx ≠ []) (h : s1.cachedTs = t) :
    SFT.tail s1 t = (s1, s1.pre) := by
  unfold SFT.tail; simp only [hidx, if_false, h, if_true]

section
variable {P : Nat} {tz : Nat → ZInfo} {loc : Bool} {toks : List Tok}

theorem parts_render (h : PatOK P tz loc toks) (tm : Tm) :
    renderParts tm (populateParts (charsOf toks)) = toks.flatMap (renderTokPlain tm) :=
  (populateParts_spec tm toks h.sup h.cls).1

theorem parts_ok (h : PatOK P tz loc toks) (tm : Tm) : ∀ p ∈ populateParts (charsOf toks), PartOK toks p :=
  (populateParts_spec tm toks h.sup h.cls).2

/-- the hypotheses of `patchAll_renderParts` for two instants of one window -/
theorem window_parts (h : PatOK P tz loc toks) (c t : Nat) (hc : Good toks c) (ht : Good toks t) (hct : c ≤ t)
    (hw : t / Wd loc P = c / Wd loc P) :
    (∀ p ∈ populateParts (charsOf toks), partType p = none →
        safeStrftime p (tmOf loc tz c) = safeStrftime p (tmOf loc tz t)) ∧
    (∀ p ∈ populateParts (charsOf toks), ∀ ft, partType p = some ft →
        (safeStrftime p (tmOf loc tz c)).length = ft.back ∧
        safeStrftime p (tmOf loc tz t) =
          patchText ft (tmOf loc tz t).hour (tmOf loc tz t).min (tmOf loc tz t).sec t ∧
        (patchText ft (tmOf loc tz t).hour (tmOf loc tz t).min (tmOf loc tz t).sec t).length = ft.back) := by
  obtain ⟨hd, hp, hz, _⟩ := same_window loc P tz h.zone c t hc.1 hct hw
  constructor
  · intro p hp' hnone
    rcases parts_ok h (tmOf loc tz c) p hp' with ⟨ft, h1, _⟩ | ⟨_, a, h2, h3, h4, _⟩
    · rw [(partType_eq_some p ft).2 h1] at hnone; cases hnone
    · subst h2
      exact static_part_stable a h3 h4 _ _ hd hp hz
  · intro p hp' ft hsome
    rcases parts_ok h (tmOf loc tz c) p hp' with ⟨ft', h1, hmem⟩ | ⟨hn, _⟩
    · have : ft' = ft := by
        have := (partType_eq_some p ft').2 h1
        rw [hsome] at this; cases this; rfl
      subst this
      subst h1
      have hsc : ft' = .s → 1000000000 ≤ (tmOf loc tz c).epoch ∧ (tmOf loc tz c).epoch < 10000000000 := by
        intro e; subst e
        rw [tmOf_epoch]
        exact ⟨hc.2.2 hmem, by have := hc.2.1; omega⟩
      have hst : ft' = .s → 1000000000 ≤ (tmOf loc tz t).epoch ∧ (tmOf loc tz t).epoch < 10000000000 := by
        intro e; subst e
        rw [tmOf_epoch]
        exact ⟨ht.2.2 hmem, by have := ht.2.1; omega⟩
      obtain ⟨r0, l0⟩ := field_render ft' (tmOf loc tz c) (tmOf_sod_lt loc tz c) hsc
      obtain ⟨r1, l1⟩ := field_render ft' (tmOf loc tz t) (tmOf_sod_lt loc tz t) hst
      rw [tmOf_epoch] at r1 l1
      refine ⟨?_, ?_, l1⟩
      · rw [safeStrftime_field, r0, l0]
      · rw [safeStrftime_field, r1]
    · rw [hn] at hsome; cases hsome

/-- the state right after `_populate_pre_formatted_string_and_cached_indexes (t)` -/
theorem recalc_cached (h : PatOK P tz loc toks) (s : SFT) (hi : SInv P tz loc toks s) (t : Nat) (ht : Good toks t) :
    Cached P tz loc toks (s.recalc P tz t) t ∧ (s.recalc P tz t).fmt = s.fmt ∧ (s.recalc P tz t).parts = s.parts ∧
    (s.recalc P tz t).localTime = s.localTime := by
  refine ⟨?_, rfl, rfl, rfl⟩
  have hl := hi.mode
  constructor
  · exact ht
  · rfl
  · simp only [SFT.recalc, populatePre_eq, List.nil_append, hl]
  · simp only [SFT.recalc, populatePre_eq, List.nil_append, List.length_nil, hl]
  · simp only [SFT.recalc, cachedSecs_eq, hl]
  · simp only [SFT.recalc, hl]
    cases loc with
    | false => simp only [Bool.false_eq_true, if_false, nextNoonOrMidnight_eq, Wd]
    | true => simp only [if_true, nextQuarterHour, Wd, Nat.succ_mul]

/-- the tail of `format_timestamp` from a state whose cache describes an instant of the same window -/
theorem tail_spec (h : PatOK P tz loc toks) (s1 : SFT) (c t : Nat)
    (hfmt : s1.fmt = charsOf toks) (hparts : s1.parts = populateParts (charsOf toks)) (hloc : s1.localTime = loc)
    (hc : Cached P tz loc toks s1 c) (ht : Good toks t) (hct : c ≤ t) (hw : t / Wd loc P = c / Wd loc P) :
    (SFT.tail s1 t).2 = toks.flatMap (renderTokPlain (tmOf loc tz t)) ∧ SInv P tz loc toks (SFT.tail s1 t).1 := by
  obtain ⟨hstat, hfield⟩ := window_parts h c t hc.good ht hct hw
  obtain ⟨_, _, _, hsod⟩ := same_window loc P tz h.zone c t hc.good.1 hct hw
  have hinv1 : SInv P tz loc toks s1 := ⟨hfmt, hparts, hloc, Or.inr ⟨c, hc⟩⟩
  rw [← hparts] at hstat hfield
  -- rendering of the parts at `t`
  have hrender : renderParts (tmOf loc tz t) s1.parts = toks.flatMap (renderTokPlain (tmOf loc tz t)) := by
    rw [hparts]; exact parts_render h _
  by_cases hidx : s1.idx = []
  · -- no field: the cached string is valid for the whole window
    rw [SFT.tail_nil s1 t hidx]
    refine ⟨?_, hinv1⟩
    rw [hc.pre, ← hrender]
    have hall : ∀ p ∈ s1.parts, partType p = none := (idxOf_nil_iff _ _ _).1 (hc.idx ▸ hidx)
    simp only [renderParts]
    apply flatMap_congr'
    intro p hp
    exact hstat p hp (hall p hp)
  · by_cases hsame : s1.cachedTs = t
    · rw [SFT.tail_same s1 t hidx hsame]
      refine ⟨?_, hinv1⟩
      have : c = t := by rw [← hc.ts, hsame]
      subst this
      rw [hc.pre, hrender]
    · -- the patch
      have hsodt := tmOf_sod_lt loc tz t
      have hcs : (s1.cachedSecs + (t - s1.cachedTs) % 4294967296) % 4294967296 = (tmOf loc tz t).sod := by
        rw [hc.secs, hc.ts, hsod]; omega
      have hpatch := patchAll_renderParts (tmOf loc tz c) (tmOf loc tz t) (tmOf loc tz t).hour (tmOf loc tz t).min
        (tmOf loc tz t).sec t s1.parts [] hstat hfield
      simp only [List.length_nil, List.nil_append] at hpatch
      have hout : patchAll ((tmOf loc tz t).sod / 3600) ((tmOf loc tz t).sod % 3600 / 60) ((tmOf loc tz t).sod % 60) t
          s1.idx s1.pre = renderParts (tmOf loc tz t) s1.parts := by
        rw [hc.idx, hc.pre]
        exact hpatch
      rw [SFT.tail_patch s1 t hidx hsame _ hcs]
      refine ⟨by rw [hout, hrender], ?_⟩
      refine ⟨hfmt, hparts, hloc, Or.inr ⟨t, ?_⟩⟩
      constructor
      · exact ht
      · rfl
      · exact hout
      · show s1.idx = idxOf (tmOf loc tz t) s1.parts 0
        rw [hc.idx]
        apply idxOf_congr
        intro p hp
        cases hpt : partType p with
        | none => rw [hstat p hp hpt]
        | some ft =>
          obtain ⟨l0, r1, l1⟩ := hfield p hp ft hpt
          rw [l0, r1, l1]
      · rfl
      · show s1.nextRecalc = (t / Wd loc P + 1) * Wd loc P
        rw [hc.next, hw]

/-- **one call of `StringFromTime::format_timestamp`** -/
theorem SFT.step_spec (h : PatOK P tz loc toks) (s : SFT) (hi : SInv P tz loc toks s) (t : Nat) (ht : Good toks t) :
    (s.step P tz t).2 = toks.flatMap (renderTokPlain (tmOf loc tz t)) ∧ SInv P tz loc toks (s.step P tz t).1 := by
  rw [SFT.step_eq]
  by_cases hback : t < s.cachedTs
  · -- an earlier instant: plain strftime, cache untouched
    simp only [hback, if_true]
    refine ⟨?_, hi⟩
    rw [hi.fmt, hi.mode, safeStrftime_charsOf toks (supported_ok toks h.sup)]
  · simp only [hback, if_false]
    have hW : 0 < Wd loc P := Wd_pos loc P (fun e => (h.zone e).pos)
    by_cases hre : s.nextRecalc ≤ t
    · simp only [hre, if_true]
      obtain ⟨hc, hf, hp, hl⟩ := recalc_cached h s hi t ht
      exact tail_spec h _ t t (hf.trans hi.fmt) (hp.trans hi.parts) (hl.trans hi.mode) hc ht (Nat.le_refl t) rfl
    · simp only [hre, if_false]
      rcases hi.state with ⟨h0, _⟩ | ⟨c, hc⟩
      · omega
      · have hct : c ≤ t := by rw [← hc.ts]; omega
        have hlt : t < (c / Wd loc P + 1) * Wd loc P := by rw [← hc.next]; omega
        exact tail_spec h s c t hi.fmt hi.parts hi.mode hc ht hct (window_of_bounds _ c t hct hlt)

/-- a whole history -/
theorem SFT.run_spec (h : PatOK P tz loc toks) : ∀ (ts : List Nat) (s : SFT), SInv P tz loc toks s →
    (∀ t ∈ ts, Good toks t) →
    SFT.run P tz s ts = ts.map (fun t => toks.flatMap (renderTokPlain (tmOf loc tz t))) := by
  intro ts
  induction ts with
  | nil => intro s _ _; rfl
  | cons t rest ih =>
    intro s hi hg
    obtain ⟨ho, hi'⟩ := SFT.step_spec h s hi t (hg t (by simp))
    simp only [SFT.run, List.map_cons, ho]
    rw [ih _ hi' (fun u hu => hg u (by simp [hu]))]

end

end Time
