import QuillModel.Time.SplitProofs
/-!
# `%r %R %T` are rewritten token by token, and the rewritten pattern renders the same

`rewrite (charsOf toks) = charsOf (rw3 toks)` for supported token lists, `rw3 toks` is again supported, renders
like `toks` under plain `strftime`, and consists of modifier tokens (`%H %M %S %I %k %l %s`) and static tokens only
(when `%X` is absent).
-/
namespace Time

/-! ### `replaceAll`, character level -/

theorem replaceAll_nil (c : Char) (new : List Char) : replaceAll c new [] = [] := by rw [replaceAll.eq_def]

theorem replaceAll_cons_ne (c : Char) (new : List Char) (a : Char) (rest : List Char) (h : a ≠ '%') :
    replaceAll c new (a :: rest) = a :: replaceAll c new rest := by
  rw [replaceAll.eq_def]
  cases rest with
  | nil => simp [replaceAll_nil]
  | cons b r => simp [h]

theorem replaceAll_pct_nil (c : Char) (new : List Char) : replaceAll c new ['%'] = ['%'] := by
  rw [replaceAll.eq_def]

theorem replaceAll_pct_miss (c : Char) (new : List Char) (b : Char) (rest : List Char) (h : b ≠ c) :
    replaceAll c new ('%' :: b :: rest) = '%' :: replaceAll c new (b :: rest) := by
  rw [replaceAll.eq_def]; simp [h]

theorem replaceAll_hit (c : Char) (new : List Char) (rest : List Char) :
    replaceAll c new ('%' :: c :: rest) = new ++ replaceAll c new rest := by
  rw [replaceAll.eq_def]; simp

/-- `'%'` followed by text whose first character is safe -/
theorem replaceAll_pct_safe (c : Char) (hc : badAfterPct.contains c = true) (new : List Char) (rest : List Char)
    (h : headSafe rest = true) : replaceAll c new ('%' :: rest) = '%' :: replaceAll c new rest := by
  cases rest with
  | nil => simp [replaceAll_pct_nil, replaceAll_nil]
  | cons b r =>
    apply replaceAll_pct_miss
    intro e; subst e
    simp only [headSafe, hc] at h
    cases h

/-! ### token level -/

def rwTok (c : Char) (new : List Tok) (t : Tok) : List Tok := if t = .conv c then new else [t]
def rwToks (c : Char) (new : List Tok) (toks : List Tok) : List Tok := toks.flatMap (rwTok c new)

theorem rwToks_cons (c : Char) (new : List Tok) (t : Tok) (ts : List Tok) :
    rwToks c new (t :: ts) = rwTok c new t ++ rwToks c new ts := by simp [rwToks]

/-- the letters `init` rewrites -/
def IsRw (c : Char) : Prop := c = 'r' ∨ c = 'R' ∨ c = 'T'

theorem replaceAll_tok (c : Char) (hc : IsRw c) (new : List Char) (tok : Tok) (rest : List Char)
    (hok : okTok tok = true) (hadj : tok = .pct → headSafe rest = true) (hne : tok ≠ .conv c) :
    replaceAll c new (tok.chars ++ rest) = tok.chars ++ replaceAll c new rest := by
  have hbad : badAfterPct.contains c = true := by rcases hc with rfl | rfl | rfl <;> decide
  cases tok with
  | lit a => simp [Tok.chars, replaceAll_cons_ne _ _ _ _ (okTok_lit a hok)]
  | pct =>
    simp only [Tok.chars, List.cons_append, List.nil_append]
    rw [replaceAll_pct_miss _ _ _ _ (by rcases hc with rfl | rfl | rfl <;> decide),
      replaceAll_pct_safe c hbad new rest (hadj rfl)]
  | conv x =>
    simp only [okTok, Bool.and_eq_true] at hok
    simp only [Tok.chars, List.cons_append, List.nil_append]
    have hx : x ≠ c := fun e => hne (by rw [e])
    rw [replaceAll_pct_miss _ _ _ _ hx, replaceAll_cons_ne _ _ _ _ (isConv_ne_pct x hok.1)]
  | mod m x =>
    simp only [okTok, Bool.and_eq_true] at hok
    obtain ⟨hm, hx, _⟩ := isModConv_cases m x hok.1
    simp only [Tok.chars, List.cons_append, List.nil_append]
    have h1 : m ≠ c := by rcases hm with rfl | rfl <;> rcases hc with rfl | rfl | rfl <;> decide
    have h2 : m ≠ '%' := by rcases hm with rfl | rfl <;> decide
    rw [replaceAll_pct_miss _ _ _ _ h1, replaceAll_cons_ne _ _ _ _ h2, replaceAll_cons_ne _ _ _ _ hx]
  | frac k =>
    simp only [Tok.chars, List.cons_append, List.nil_append]
    have h1 : 'Q' ≠ c := by rcases hc with rfl | rfl | rfl <;> decide
    have hl : k.letter ≠ '%' := by cases k <;> decide
    rw [replaceAll_pct_miss _ _ _ _ h1, replaceAll_cons_ne _ _ _ _ (by decide), replaceAll_cons_ne _ _ _ _ hl,
      replaceAll_cons_ne _ _ _ _ (by decide)]
  | stray => simp [okTok] at hok

/-- **`_replace_all` rewrites exactly the `%c` tokens** -/
theorem replaceAll_toks (c : Char) (hc : IsRw c) (new : List Tok) : ∀ (toks : List Tok), supportedToks toks = true →
    replaceAll c (charsOf new) (charsOf toks) = charsOf (rwToks c new toks) := by
  intro toks
  induction toks with
  | nil => intro _; simp [rwToks, replaceAll_nil]
  | cons t ts ih =>
    intro h
    rw [supported_cons] at h
    obtain ⟨hok, hadj, hrest⟩ := h
    rw [rwToks_cons, charsOf_append, charsOf_cons]
    by_cases ht : t = .conv c
    · subst ht
      simp only [Tok.chars, List.cons_append, List.nil_append, rwTok, if_true]
      rw [replaceAll_hit, ih hrest]
    · simp only [rwTok, ht, if_false, charsOf_cons, charsOf_nil, List.append_nil]
      rw [replaceAll_tok c hc _ t _ hok (fun e => by subst e; exact headSafe_of_adj ts hadj hrest) ht, ih hrest]

/-! ### the rewritten list is supported again -/

/-- `adjOK` looks at the next token only -/
theorem adjOK_head (t x : Tok) (a b : List Tok) : adjOK t (x :: a) = adjOK t (x :: b) := by
  cases t <;> cases x <;> rfl

/-- replacement lists: supported, start with a conversion, do not end with `%%` -/
structure NiceNew (new : List Tok) : Prop where
  sup : supportedToks new = true
  head : ∃ c rest, new = .conv c :: rest
  last : ∀ b, supportedToks b = true → supportedToks (new ++ b) = true

theorem adjOK_conv (t : Tok) (c : Char) (rest : List Tok) : adjOK t (.conv c :: rest) = true := by
  cases t <;> rfl

theorem rwToks_supported (c : Char) (new : List Tok) (hn : NiceNew new) : ∀ (toks : List Tok),
    supportedToks toks = true → supportedToks (rwToks c new toks) = true := by
  intro toks
  induction toks with
  | nil => intro _; rfl
  | cons t ts ih =>
    intro h
    rw [supported_cons] at h
    obtain ⟨hok, hadj, hrest⟩ := h
    rw [rwToks_cons]
    by_cases ht : t = .conv c
    · simp only [rwTok, ht, if_true]
      exact hn.last _ (ih hrest)
    · simp only [rwTok, ht, if_false, List.singleton_append]
      rw [supported_cons]
      refine ⟨hok, ?_, ih hrest⟩
      cases ts with
      | nil => simp [rwToks, adjOK_nil]
      | cons u us =>
        rw [rwToks_cons]
        by_cases hu : u = .conv c
        · obtain ⟨c', r', hnew⟩ := hn.head
          simp only [rwTok, hu, if_true, hnew, List.cons_append]
          exact adjOK_conv _ _ _
        · simp only [rwTok, hu, if_false, List.singleton_append]
          rw [adjOK_head t u _ us]; exact hadj

/-! ### the three rewrites -/

def newr : List Tok := [.conv 'I', .lit ':', .conv 'M', .lit ':', .conv 'S', .lit ' ', .conv 'p']
def newR : List Tok := [.conv 'H', .lit ':', .conv 'M']
def newT : List Tok := [.conv 'H', .lit ':', .conv 'M', .lit ':', .conv 'S']

def rw3 (toks : List Tok) : List Tok := rwToks 'T' newT (rwToks 'R' newR (rwToks 'r' newr toks))

theorem supported_conv_cons (c : Char) (b : List Tok) (hc : okTok (.conv c) = true) (hb : supportedToks b = true) :
    supportedToks (.conv c :: b) = true := by
  rw [supported_cons]; exact ⟨hc, by cases b <;> rfl, hb⟩

theorem supported_lit_cons (c : Char) (b : List Tok) (hc : c ≠ '%') (hb : supportedToks b = true) :
    supportedToks (.lit c :: b) = true := by
  rw [supported_cons]; exact ⟨by simpa [okTok] using hc, by cases b <;> rfl, hb⟩

theorem nice_newr : NiceNew newr where
  sup := by decide
  head := ⟨_, _, rfl⟩
  last := by
    intro b hb
    simp only [newr, List.cons_append, List.nil_append]
    exact supported_conv_cons _ _ (by decide) (supported_lit_cons _ _ (by decide) (supported_conv_cons _ _ (by decide)
      (supported_lit_cons _ _ (by decide) (supported_conv_cons _ _ (by decide) (supported_lit_cons _ _ (by decide)
      (supported_conv_cons _ _ (by decide) hb))))))

theorem nice_newR : NiceNew newR where
  sup := by decide
  head := ⟨_, _, rfl⟩
  last := by
    intro b hb
    simp only [newR, List.cons_append, List.nil_append]
    exact supported_conv_cons _ _ (by decide) (supported_lit_cons _ _ (by decide) (supported_conv_cons _ _ (by decide) hb))

theorem nice_newT : NiceNew newT where
  sup := by decide
  head := ⟨_, _, rfl⟩
  last := by
    intro b hb
    simp only [newT, List.cons_append, List.nil_append]
    exact supported_conv_cons _ _ (by decide) (supported_lit_cons _ _ (by decide) (supported_conv_cons _ _ (by decide)
      (supported_lit_cons _ _ (by decide) (supported_conv_cons _ _ (by decide) hb))))

theorem rw3_supported (toks : List Tok) (h : supportedToks toks = true) : supportedToks (rw3 toks) = true :=
  rwToks_supported _ _ nice_newT _ (rwToks_supported _ _ nice_newR _ (rwToks_supported _ _ nice_newr _ h))

/-- **`init`'s three `_replace_all` calls, on tokens** -/
theorem rewrite_toks (toks : List Tok) (h : supportedToks toks = true) :
    rewrite (charsOf toks) = charsOf (rw3 toks) := by
  have e1 : "%I:%M:%S %p".toList = charsOf newr := by decide
  have e2 : "%H:%M".toList = charsOf newR := by decide
  have e3 : "%H:%M:%S".toList = charsOf newT := by decide
  have h1 := rwToks_supported 'r' newr nice_newr toks h
  have h2 := rwToks_supported 'R' newR nice_newR _ h1
  simp only [rewrite, replaceAllCpp_eq, rw3, e1, e2, e3]
  rw [replaceAll_toks 'r' (Or.inl rfl) newr toks h, replaceAll_toks 'R' (Or.inr (Or.inl rfl)) newR _ h1,
    replaceAll_toks 'T' (Or.inr (Or.inr rfl)) newT _ h2]

/-! ### rendering is unchanged -/

theorem rwToks_render (c : Char) (new : List Tok) (tm : Tm)
    (hnew : new.flatMap (renderTokPlain tm) = renderConv c tm) (toks : List Tok) :
    (rwToks c new toks).flatMap (renderTokPlain tm) = toks.flatMap (renderTokPlain tm) := by
  induction toks with
  | nil => rfl
  | cons t ts ih =>
    rw [rwToks_cons, List.flatMap_append, ih, List.flatMap_cons]
    congr 1
    by_cases ht : t = .conv c
    · subst ht; simp only [rwTok, if_true, hnew, renderTokPlain]
    · simp [rwTok, ht]

theorem render_newr (tm : Tm) : newr.flatMap (renderTokPlain tm) = renderConv 'r' tm := by
  simp [newr, renderTokPlain, renderConv, renderTime, timeConvs]

theorem render_newR (tm : Tm) : newR.flatMap (renderTokPlain tm) = renderConv 'R' tm := by
  simp [newR, renderTokPlain, renderConv, renderTime, timeConvs]

theorem render_newT (tm : Tm) : newT.flatMap (renderTokPlain tm) = renderConv 'T' tm := by
  simp [newT, renderTokPlain, renderConv, renderTime, renderHMS, timeConvs]

theorem rw3_render (tm : Tm) (toks : List Tok) :
    (rw3 toks).flatMap (renderTokPlain tm) = toks.flatMap (renderTokPlain tm) := by
  simp only [rw3]
  rw [rwToks_render 'T' newT tm (render_newT tm), rwToks_render 'R' newR tm (render_newR tm),
    rwToks_render 'r' newr tm (render_newr tm)]

/-! ### what is left after the rewrites -/

/-- tokens whose plain rendering depends on the civil day, AM/PM and the zone data only -/
def isStaticTok : Tok → Bool
  | .lit _ => true
  | .pct => true
  | .conv c => staticConvs.contains c
  | .mod _ c => staticConvs.contains c
  | .frac _ => true
  | .stray => true

theorem mem_rwToks (c : Char) (new : List Tok) (toks : List Tok) (t : Tok) (h : t ∈ rwToks c new toks) :
    (t ∈ toks ∧ t ≠ .conv c) ∨ t ∈ new := by
  simp only [rwToks, List.mem_flatMap] at h
  obtain ⟨u, hu, ht⟩ := h
  by_cases e : u = .conv c
  · simp only [rwTok, e, if_true] at ht; exact Or.inr ht
  · simp only [rwTok, e, if_false, List.mem_singleton] at ht
    subst ht; exact Or.inl ⟨hu, e⟩

/-- every token of the rewritten pattern is one of the seven modifiers or static, when `%X` is absent -/
theorem rw3_tokens (toks : List Tok) (h : supportedToks toks = true) (hx : hasX toks = false) :
    ∀ t ∈ rw3 toks, hitMod t = true ∨ isStaticTok t = true := by
  have hok := supported_ok _ (rw3_supported toks h)
  have key : ∀ t, okTok t = true → t ≠ .conv 'T' → t ≠ .conv 'R' → t ≠ .conv 'r' → t ≠ .conv 'X' →
      hitMod t = true ∨ isStaticTok t = true := by
    intro t ht h1 h2 h3 h4
    cases t with
    | lit c => right; rfl
    | pct => right; rfl
    | frac k => right; rfl
    | stray => right; rfl
    | conv c =>
      simp only [okTok, Bool.and_eq_true, isConv, Bool.or_eq_true, bne_iff_ne, ne_eq] at ht
      obtain ⟨hc, hcc⟩ := ht
      rcases hc with hc | hc
      · left
        simp only [timeConvs, List.contains_cons, List.contains_nil, Bool.or_false, Bool.or_eq_true, beq_iff_eq] at hc
        rcases hc with rfl | rfl | rfl | rfl | rfl | rfl | rfl | rfl | rfl | rfl | rfl | rfl <;>
          first | decide | (exfalso; first | exact h1 rfl | exact h2 rfl | exact h3 rfl | exact h4 rfl | exact hcc rfl)
      · right; exact hc
    | mod m c =>
      right
      simp only [okTok, Bool.and_eq_true, Bool.not_eq_true'] at ht
      obtain ⟨hmc, hf8⟩ := ht
      simp only [isModConv, Bool.or_eq_true, Bool.and_eq_true, beq_iff_eq] at hmc
      rcases hmc with ⟨rfl, hc⟩ | ⟨rfl, hc⟩
      · simp only [eConvs, List.contains_cons, List.contains_nil, Bool.or_false, Bool.or_eq_true, beq_iff_eq] at hc
        rcases hc with rfl | rfl | rfl | rfl | rfl | rfl <;> first | decide | (exfalso; revert hf8; decide)
      · simp only [oConvs, List.contains_cons, List.contains_nil, Bool.or_false, Bool.or_eq_true, beq_iff_eq] at hc
        rcases hc with rfl | rfl | rfl | rfl | rfl | rfl | rfl | rfl | rfl | rfl | rfl | rfl | rfl <;>
          first | decide | (exfalso; revert hf8; decide)
  have okmem : ∀ (l : List Tok), okToks l = true → ∀ t ∈ l, okTok t = true := by
    intro l
    induction l with
    | nil => intro _ t ht; simp at ht
    | cons u us ih =>
      intro hl t ht
      simp only [okToks, Bool.and_eq_true] at hl
      simp only [List.mem_cons] at ht
      rcases ht with rfl | ht
      · exact hl.1
      · exact ih hl.2 t ht
  intro t ht
  have htok := okmem _ hok t ht
  -- trace t back through the three rewrites
  have hnoX : ∀ u ∈ toks, u ≠ .conv 'X' := by
    intro u hu e; subst e
    have : hasX toks = true := by simpa [hasX] using hu
    rw [hx] at this; cases this
  simp only [rw3] at ht
  rcases mem_rwToks _ _ _ _ ht with ⟨ht2, hT⟩ | hin
  · rcases mem_rwToks _ _ _ _ ht2 with ⟨ht1, hR⟩ | hin
    · rcases mem_rwToks _ _ _ _ ht1 with ⟨ht0, hr⟩ | hin
      · exact key t htok hT hR hr (hnoX t ht0)
      · simp only [newr, List.mem_cons, List.not_mem_nil, or_false] at hin
        rcases hin with rfl | rfl | rfl | rfl | rfl | rfl | rfl <;> first | (left; decide) | (right; decide)
    · simp only [newR, List.mem_cons, List.not_mem_nil, or_false] at hin
      rcases hin with rfl | rfl | rfl <;> first | (left; decide) | (right; decide)
  · simp only [newT, List.mem_cons, List.not_mem_nil, or_false] at hin
    rcases hin with rfl | rfl | rfl | rfl | rfl <;> first | (left; decide) | (right; decide)

end Time
