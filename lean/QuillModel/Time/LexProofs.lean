import QuillModel.Time.Supported
/-!
# The lexer and the character form of token lists

`charsOf (lex p) = p` for every string (lexing loses nothing), and `lex (charsOf toks) = toks` for every
canonical token list (`okToks`): patterns and supported token lists are the same thing. Plus closure properties of
`supportedToks`.
-/
namespace Time

def charsOf (toks : List Tok) : List Char := toks.flatMap Tok.chars

@[simp] theorem charsOf_nil : charsOf [] = [] := rfl
@[simp] theorem charsOf_cons (t : Tok) (ts : List Tok) : charsOf (t :: ts) = t.chars ++ charsOf ts := by
  simp [charsOf]
@[simp] theorem charsOf_append (a b : List Tok) : charsOf (a ++ b) = charsOf a ++ charsOf b := by
  simp [charsOf]

/-! ### unfolding `lex` -/

theorem lex_nil : lex [] = [] := by rw [lex.eq_def]

theorem lex_cons_ne (a : Char) (rest : List Char) (h : a ≠ '%') : lex (a :: rest) = .lit a :: lex rest := by
  rw [lex.eq_def]; simp [h]

theorem lex_pct (rest : List Char) : lex ('%' :: '%' :: rest) = .pct :: lex rest := by
  rw [lex.eq_def]; simp

theorem lex_conv (c : Char) (rest : List Char) (h1 : c ≠ '%') (h : isConv c = true) :
    lex ('%' :: c :: rest) = .conv c :: lex rest := by
  rw [lex.eq_def]; simp [h, h1]

theorem lex_mod (m c : Char) (rest : List Char) (h1 : m ≠ '%') (h2 : isConv m = false) (h : isModConv m c = true) :
    lex ('%' :: m :: c :: rest) = .mod m c :: lex rest := by
  rw [lex.eq_def]; simp [h, h1, h2]

theorem lex_frac (k : Frac) (rest : List Char) :
    lex ('%' :: 'Q' :: k.letter :: 's' :: rest) = .frac k :: lex rest := by
  rw [lex.eq_def]
  cases k <;> simp [Frac.letter, Frac.ofLetter, isConv, isModConv, timeConvs, staticConvs]

theorem ofLetter_some (c : Char) (k : Frac) (h : Frac.ofLetter c = some k) : c = k.letter := by
  unfold Frac.ofLetter at h
  split at h
  · cases h; simpa [Frac.letter]
  · split at h
    · cases h; simpa [Frac.letter]
    · split at h
      · cases h; simpa [Frac.letter]
      · cases h

/-- **lexing loses nothing** -/
theorem charsOf_lex (p : List Char) : charsOf (lex p) = p := by
  induction p using lex.induct with
  | case1 => simp [lex_nil]
  | case2 d r h ih => rw [lex_cons_ne _ _ h]; simp [Tok.chars, ih]
  | case3 d h _ => simp at h; subst h; rw [lex.eq_def]; simp [Tok.chars]
  | case4 d h r _ ih => simp at h; subst h; rw [lex_pct]; simp [Tok.chars, ih]
  | case5 d h c r h1 h2 _ ih => simp at h; subst h; rw [lex_conv _ _ h1 h2]; simp [Tok.chars, ih]
  | case6 d h c h1 h2 ih =>
    simp at h; subst h
    have : lex ['%', c] = .stray :: lex [c] := by rw [lex.eq_def]; simp [h1, h2]
    rw [this]; simp [Tok.chars, ih]
  | case7 d h m h1 h2 c r h3 _ ih =>
    simp at h; subst h
    rw [lex_mod _ _ _ h1 (by simpa using h2) h3]; simp [Tok.chars, ih]
  | case8 d h m h1 h2 c h3 ih =>
    simp at h; subst h
    have : lex ['%', m, c] = .stray :: lex [m, c] := by rw [lex.eq_def]; simp [h1, h2, h3]
    rw [this]; simp [Tok.chars, ih]
  | case9 d h m h1 h2 c h3 e r k hk _ ih =>
    simp at h; subst h
    have hm : m = 'Q' ∧ e = 's' := by
      by_cases hc : m = 'Q' ∧ e = 's'
      · exact hc
      · simp [hc] at hk
    obtain ⟨rfl, rfl⟩ := hm
    simp at hk
    have := ofLetter_some _ _ hk
    subst this
    rw [lex_frac]; simp [Tok.chars, ih]
  | case10 d h m h1 h2 c h3 e r hk ih =>
    simp at h; subst h
    have : lex ('%' :: m :: c :: e :: r) = .stray :: lex (m :: c :: e :: r) := by
      rw [lex.eq_def]; simp [h1, h2, h3, hk]
    rw [this]; simp [Tok.chars, ih]

/-! ### canonical token lists -/

theorem isConv_ne_pct (c : Char) (h : isConv c = true) : c ≠ '%' := by
  intro e; subst e; revert h; decide

theorem isModConv_cases (m c : Char) (h : isModConv m c = true) :
    (m = 'E' ∨ m = 'O') ∧ c ≠ '%' ∧ isConv c = true := by
  simp only [isModConv, Bool.or_eq_true, Bool.and_eq_true, beq_iff_eq] at h
  rcases h with ⟨rfl, hc⟩ | ⟨rfl, hc⟩
  · refine ⟨Or.inl rfl, ?_, ?_⟩
    · intro e; subst e; revert hc; decide
    · simp only [eConvs, List.contains_cons, List.contains_nil, Bool.or_false, Bool.or_eq_true, beq_iff_eq] at hc
      rcases hc with rfl | rfl | rfl | rfl | rfl | rfl <;> decide
  · refine ⟨Or.inr rfl, ?_, ?_⟩
    · intro e; subst e; revert hc; decide
    · simp only [oConvs, List.contains_cons, List.contains_nil, Bool.or_false, Bool.or_eq_true, beq_iff_eq] at hc
      rcases hc with rfl | rfl | rfl | rfl | rfl | rfl | rfl | rfl | rfl | rfl | rfl | rfl | rfl <;> decide

/-- every token is well-formed (no adjacency condition) -/
def okToks : List Tok → Bool
  | [] => true
  | t :: rest => okTok t && okToks rest

theorem okTok_lit (c : Char) (h : okTok (.lit c) = true) : c ≠ '%' := by
  simpa [okTok] using h

/-- **lexing a canonical token list gives it back** -/
theorem lex_charsOf : ∀ (toks : List Tok), okToks toks = true → lex (charsOf toks) = toks := by
  intro toks
  induction toks with
  | nil => intro _; simp [lex_nil]
  | cons t ts ih =>
    intro h
    simp only [okToks, Bool.and_eq_true] at h
    obtain ⟨ht, hts⟩ := h
    have ih := ih hts
    cases t with
    | lit c => simp [Tok.chars, lex_cons_ne _ _ (okTok_lit c ht), ih]
    | pct => simp [Tok.chars, lex_pct, ih]
    | conv c =>
      simp only [okTok, Bool.and_eq_true] at ht
      simp [Tok.chars, lex_conv _ _ (isConv_ne_pct c ht.1) ht.1, ih]
    | mod m c =>
      simp only [okTok, Bool.and_eq_true] at ht
      obtain ⟨hm, _, _⟩ := isModConv_cases m c ht.1
      have h1 : m ≠ '%' := by rcases hm with rfl | rfl <;> decide
      have h2 : isConv m = false := by rcases hm with rfl | rfl <;> decide
      simp [Tok.chars, lex_mod _ _ _ h1 h2 ht.1, ih]
    | frac k => simp [Tok.chars, lex_frac, ih]
    | stray => simp [okTok] at ht

/-! ### `supportedToks` -/

theorem supported_cons (t : Tok) (rest : List Tok) :
    supportedToks (t :: rest) = true ↔ okTok t = true ∧ adjOK t rest = true ∧ supportedToks rest = true := by
  simp [supportedToks, Bool.and_eq_true, and_assoc]

theorem supported_ok : ∀ (toks : List Tok), supportedToks toks = true → okToks toks = true := by
  intro toks
  induction toks with
  | nil => intro _; rfl
  | cons t ts ih =>
    intro h
    rw [supported_cons] at h
    simp [okToks, h.1, ih h.2.2]

theorem adjOK_nil (t : Tok) : adjOK t [] = true := by cases t <;> rfl

theorem adjOK_append_left (t : Tok) (x : Tok) (a b : List Tok) (h : adjOK t (x :: a ++ b) = true) :
    adjOK t (x :: a) = true := by
  cases t <;> cases x <;> simp_all [adjOK]

theorem supported_append : ∀ (a b : List Tok), supportedToks (a ++ b) = true →
    supportedToks a = true ∧ supportedToks b = true := by
  intro a
  induction a with
  | nil => intro b h; exact ⟨rfl, h⟩
  | cons t ts ih =>
    intro b h
    rw [List.cons_append, supported_cons] at h
    obtain ⟨h1, h2, h3⟩ := h
    obtain ⟨ha, hb⟩ := ih b h3
    refine ⟨?_, hb⟩
    rw [supported_cons]
    refine ⟨h1, ?_, ha⟩
    cases ts with
    | nil => exact adjOK_nil t
    | cons x xs => exact adjOK_append_left t x xs b h2

end Time
