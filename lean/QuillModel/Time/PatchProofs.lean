import QuillModel.Time.FracProofs
/-!
# Digit patching

`populatePre` lays the rendered parts side by side and records where the modifier fields start; `patchAll`
overwrites exactly those fields. If the static parts render the same for two broken-down times and every field
part renders, for the second one, to what `patchText` writes (same width), then patching the string pre-formatted
for the first time yields the string pre-formatted for the second. Plus the arithmetic of the fields:
`cached seconds + difference` decomposed into hours / minutes / seconds is the broken-down time of day.
-/
namespace Time

/-! ### `overwrite` -/

theorem overwrite_mid (pre seg suf w : List Char) (h : w.length = seg.length) :
    overwrite (pre ++ seg ++ suf) pre.length w = pre ++ w ++ suf := by
  simp only [overwrite, List.append_assoc]
  rw [List.take_left', h]
  · congr 2
    rw [← List.append_assoc, List.drop_left' (by simp)]
  · rfl

/-! ### what `populatePre` computes -/

/-- the positions recorded for the modifier parts, when the text so far has length `off` -/
def idxOf (tm : Tm) : List (List Char) → Nat → List (Nat × FT)
  | [], _ => []
  | p :: ps, off =>
    (match partType p with
      | some ft => [(off + (safeStrftime p tm).length - ft.back, ft)]
      | none => []) ++ idxOf tm ps (off + (safeStrftime p tm).length)

def renderParts (tm : Tm) (parts : List (List Char)) : List Char := parts.flatMap (fun p => safeStrftime p tm)

theorem renderParts_cons (tm : Tm) (p : List Char) (ps : List (List Char)) :
    renderParts tm (p :: ps) = safeStrftime p tm ++ renderParts tm ps := by
  simp [renderParts]

theorem populatePre_eq (tm : Tm) : ∀ (parts : List (List Char)) (acc : List Char) (idx : List (Nat × FT)),
    populatePre tm parts acc idx = (acc ++ renderParts tm parts, idx ++ idxOf tm parts acc.length) := by
  intro parts
  induction parts with
  | nil => intro acc idx; simp [populatePre, renderParts, idxOf]
  | cons p ps ih =>
    intro acc idx
    simp only [populatePre, ih, renderParts_cons, idxOf, List.length_append, List.append_assoc]
    cases partType p <;> simp

theorem idxOf_nil_iff (tm : Tm) : ∀ (parts : List (List Char)) (off : Nat),
    idxOf tm parts off = [] ↔ ∀ p ∈ parts, partType p = none := by
  intro parts
  induction parts with
  | nil => intro off; simp [idxOf]
  | cons p ps ih =>
    intro off
    simp only [idxOf, List.append_eq_nil_iff, ih, List.mem_cons, forall_eq_or_imp]
    cases partType p <;> simp

/-- the positions depend on the lengths of the rendered parts only -/
theorem idxOf_congr (tm0 tm1 : Tm) : ∀ (parts : List (List Char)) (off : Nat),
    (∀ p ∈ parts, (safeStrftime p tm0).length = (safeStrftime p tm1).length) →
    idxOf tm0 parts off = idxOf tm1 parts off := by
  intro parts
  induction parts with
  | nil => intros; rfl
  | cons p ps ih =>
    intro off h
    have hp := h p (by simp)
    simp only [idxOf, hp]
    rw [ih _ (fun q hq => h q (by simp [hq]))]

/-! ### patching -/

theorem patchAll_cons (h m s ts : Nat) (e : Nat × FT) (es : List (Nat × FT)) (pre : List Char) :
    patchAll h m s ts (e :: es) pre = patchAll h m s ts es (overwrite pre e.1 (patchText e.2 h m s ts)) := by
  simp [patchAll]

theorem patchAll_nil (h m s ts : Nat) (pre : List Char) : patchAll h m s ts [] pre = pre := by
  simp [patchAll]

/-- **patching is re-rendering**: static parts agree, each field part of the old string has the field's width and
    the new rendering of it is what the patch writes -/
theorem patchAll_renderParts (tm0 tm1 : Tm) (h m s ts : Nat) : ∀ (parts : List (List Char)) (pre : List Char),
    (∀ p ∈ parts, partType p = none → safeStrftime p tm0 = safeStrftime p tm1) →
    (∀ p ∈ parts, ∀ ft, partType p = some ft →
        (safeStrftime p tm0).length = ft.back ∧ safeStrftime p tm1 = patchText ft h m s ts ∧
        (patchText ft h m s ts).length = ft.back) →
    patchAll h m s ts (idxOf tm0 parts pre.length) (pre ++ renderParts tm0 parts) = pre ++ renderParts tm1 parts := by
  intro parts
  induction parts with
  | nil => intro pre _ _; simp [idxOf, renderParts, patchAll_nil]
  | cons p ps ih =>
    intro pre hs hf
    have hs' : ∀ q ∈ ps, partType q = none → safeStrftime q tm0 = safeStrftime q tm1 :=
      fun q hq => hs q (by simp [hq])
    have hf' : ∀ q ∈ ps, ∀ ft, partType q = some ft →
        (safeStrftime q tm0).length = ft.back ∧ safeStrftime q tm1 = patchText ft h m s ts ∧
        (patchText ft h m s ts).length = ft.back := fun q hq => hf q (by simp [hq])
    simp only [idxOf, renderParts_cons]
    cases hpt : partType p with
    | none =>
      have e := hs p (by simp) hpt
      simp only [List.nil_append]
      have := ih (pre ++ safeStrftime p tm0) hs' hf'
      simp only [List.length_append, List.append_assoc] at this
      rw [this, e]
    | some ft =>
      obtain ⟨h0, h1, h2⟩ := hf p (by simp) ft hpt
      simp only [List.singleton_append, patchAll_cons]
      have e0 : pre.length + (safeStrftime p tm0).length - ft.back = pre.length := by omega
      rw [e0]
      have ow : overwrite (pre ++ (safeStrftime p tm0 ++ renderParts tm0 ps)) pre.length (patchText ft h m s ts) =
          pre ++ patchText ft h m s ts ++ renderParts tm0 ps := by
        rw [← List.append_assoc]
        exact overwrite_mid pre _ _ _ (by omega)
      rw [ow]
      have := ih (pre ++ patchText ft h m s ts) hs' hf'
      simp only [List.length_append, List.append_assoc] at this ⊢
      rw [h0, ← h2, this, h1]

/-! ### the arithmetic of the fields -/

/-- the decomposition `format_timestamp` performs on the updated `_cached_seconds` -/
theorem hms_decompose (cs : Nat) :
    cs / 3600 = cs / 3600 ∧ (cs - cs / 3600 * 3600) / 60 = cs % 3600 / 60 ∧
    cs - cs / 3600 * 3600 - (cs - cs / 3600 * 3600) / 60 * 60 = cs % 60 := by
  refine ⟨rfl, ?_, ?_⟩ <;> omega

/-- the seconds cached at a recalculation are the second of the day -/
theorem cachedSecs_eq (tm : Tm) : tm.hour * 3600 + tm.min * 60 + tm.sec = tm.sod := by
  simp only [Tm.hour, Tm.min, Tm.sec]; omega

/-- the 12-hour form of the patch switch is glibc's -/
theorem hour12_eq (h : Nat) (hh : h < 24) :
    (if h = 0 then 12 else if h > 12 then h - 12 else h) = hour12 h := by
  unfold hour12
  by_cases h0 : h = 0
  · subst h0; rfl
  · by_cases h1 : h > 12
    · have : ¬ (h % 12 = 0) ∨ h = 24 := by omega
      simp only [h0, if_false, h1, if_true]
      split <;> omega
    · simp only [h0, if_false, h1]
      split <;> omega

end Time
