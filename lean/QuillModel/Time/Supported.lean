import QuillModel.Time.Cache
/-!
# The patterns C13's theorem covers (decidable), and the input classes of the known findings

`supportedToks (lex p)` is the hypothesis of the main theorem; the correspondence driver evaluates the same
function on every generated pattern, so the evidence says to how many of them the theorem applies.
-/
namespace Time

/-- finding F8: conversions that look at the time of day but are neither patched, rewritten nor rejected -/
def f8Tok : Tok → Bool
  | .conv c => c == 'c'
  | .mod m c => (m == 'E' && (c == 'c' || c == 'X')) || (m == 'O' && (c == 'H' || c == 'I' || c == 'M' || c == 'S'))
  | _ => false

/-- characters which, directly after a literal `%%`, make one of the substring searches of the C++ see a
    conversion that is not there: the seven modifiers (excluded by the property's own quantifier), the three
    rewritten conversions, `X` (spurious rejection) and `Q` (spurious fractional specifier) -/
def badAfterPct : List Char := ['H', 'M', 'S', 'I', 'k', 'l', 's', 'r', 'R', 'T', 'X', 'Q']

def okTok : Tok → Bool
  | .lit c => c != '%'
  | .pct => true
  | .conv c => isConv c && c != 'c'
  | .mod m c => isModConv m c && !f8Tok (.mod m c)
  | .frac _ => true
  | .stray => false

def adjOK : Tok → List Tok → Bool
  | .pct, .lit c :: _ => !badAfterPct.contains c
  | _, _ => true

def supportedToks : List Tok → Bool
  | [] => true
  | t :: rest => okTok t && adjOK t rest && supportedToks rest

def isFracTok : Tok → Bool
  | .frac _ => true
  | _ => false

def fracCount (toks : List Tok) : Nat := (toks.filter isFracTok).length
def hasKind (k : Frac) (toks : List Tok) : Bool := toks.contains (.frac k)
def kindCount (toks : List Tok) : Nat :=
  (if hasKind .ms toks then 1 else 0) + (if hasKind .us toks then 1 else 0) + (if hasKind .ns toks then 1 else 0)
def hasX (toks : List Tok) : Bool := toks.contains (.conv 'X')
def usesEpoch (toks : List Tok) : Bool := toks.contains (.conv 's')

/-- the zone premise of the local-time theorem, on a finite set of instants (what the driver can check on the
    offset table printed by the harness): offsets are multiples of the recalculation period `P` and two instants in the same
    UTC period have the same zone data -/
def zonePremiseOn (P : Nat) (tab : List (Nat × ZInfo)) : Bool :=
  tab.all (fun a => a.2.off % (P : Int) == 0 && tab.all (fun b => a.1 / P != b.1 / P || a.2 == b.2))

end Time
