import QuillModel.Time.Civil
/-!
# C-locale `strftime` (reference side of C13) and the lexer shared with the cache machine's proofs

`Tm` is the broken-down time `gmtime_r`/`localtime_r` produce, reduced to what determines every field: the
local civil day number, the second of that day, the instant itself (`%s`) and the zone data (`tm_gmtoff`,
`tm_isdst`, `tm_zone`). `strftimePlain` is glibc's `strftime` in the C locale for the conversions the formatter
can meet (no flags / widths); `strftimeRef` additionally renders quill's `%Qms %Qus %Qns`. Both are defined as
`lex` followed by a per-token renderer, so that the proofs can work token by token while the cache machine
(`Cache.lean`) works on raw characters exactly like the C++.
-/
namespace Time

/-- zone data valid at one instant (what `localtime_r` adds to the civil fields) -/
structure ZInfo where
  off : Int          -- tm_gmtoff, seconds east of UTC
  isdst : Bool
  abbr : List Char   -- tm_zone
deriving DecidableEq, Repr

def gmtZ : ZInfo := { off := 0, isdst := false, abbr := ['G', 'M', 'T'] }

/-- broken-down time -/
structure Tm where
  days : Nat      -- local civil day, days since 1970-01-01
  sod : Nat       -- second of the local day, 0..86399
  epoch : Nat     -- the instant: what `%s` prints where libc's `%s` is meaningful
  zi : ZInfo
deriving DecidableEq, Repr

def Tm.hour (tm : Tm) : Nat := tm.sod / 3600
def Tm.min (tm : Tm) : Nat := tm.sod % 3600 / 60
def Tm.sec (tm : Tm) : Nat := tm.sod % 60
def Tm.pm (tm : Tm) : Bool := decide (43200 ≤ tm.sod)

/-- `localtime_r` for an instant whose zone data is `zi` (`gmtime_r` = `mkTm t gmtZ`) -/
def mkTm (t : Nat) (zi : ZInfo) : Tm :=
  let lt : Nat := ((t : Int) + zi.off).toNat
  { days := lt / 86400, sod := lt % 86400, epoch := t, zi := zi }

def gmtime (t : Nat) : Tm := mkTm t gmtZ

/-! ### digits -/

def digitChar (n : Nat) : Char := Char.ofNat (48 + n % 10)

/-- decimal digits without leading zeros (`fmt::format_int`, `%d` of a non-negative value); fuel-structural -/
def digitsF : Nat → Nat → List Char
  | 0, _ => []
  | f + 1, n => if n < 10 then [digitChar n] else digitsF f (n / 10) ++ [digitChar n]

/-- values below 10^20 (every `uint64_t`) -/
def natDigits (n : Nat) : List Char := digitsF 20 n

/-- right-align `s` in a field of `w` characters filled with `c` (`{:0w}` / `{:w}` of fmt for numbers, `DO_NUMBER` of glibc):
    never truncates -/
def padLeft (c : Char) (w : Nat) (s : List Char) : List Char := List.replicate (w - s.length) c ++ s

def padNum (c : Char) (w : Nat) (n : Nat) : List Char := padLeft c w (natDigits n)

/-- exactly `w` decimal digits of `n` (most significant first), i.e. `n mod 10^w` zero-padded -/
def fixedDigits : Nat → Nat → List Char
  | 0, _ => []
  | w + 1, n => fixedDigits w (n / 10) ++ [digitChar n]

/-! ### names -/

def wdayNames : List String := ["Sunday", "Monday", "Tuesday", "Wednesday", "Thursday", "Friday", "Saturday"]
def monNames : List String := ["January", "February", "March", "April", "May", "June", "July", "August",
  "September", "October", "November", "December"]

def wdayName (w : Nat) : List Char := (wdayNames.getD w "?").toList
def monName (m : Nat) : List Char := (monNames.getD (m - 1) "?").toList

def hour12 (h : Nat) : Nat := if h % 12 = 0 then 12 else h % 12

/-! ### conversions

Three classes (this classification is what the cache machine's soundness rests on):
* `timeConvs`: the rendering depends on the second of the day (or on the instant, `%s`);
* `staticConvs`: the rendering depends only on the civil day, on AM/PM and on the zone data;
* everything else is not a conversion (glibc copies it literally). -/

def timeConvs : List Char := ['H', 'M', 'S', 'I', 'k', 'l', 's', 'T', 'R', 'r', 'c', 'X']
def staticConvs : List Char := ['a', 'A', 'b', 'B', 'C', 'd', 'D', 'e', 'F', 'g', 'G', 'h', 'j', 'm', 'n', 'p', 'P',
  't', 'u', 'U', 'V', 'w', 'W', 'x', 'y', 'Y', 'z', 'Z']

def isConv (c : Char) : Bool := timeConvs.contains c || staticConvs.contains c

/-- `%E?` / `%O?` combinations glibc accepts; in the C locale they render like the plain conversion -/
def eConvs : List Char := ['c', 'C', 'x', 'X', 'y', 'Y']
def oConvs : List Char := ['d', 'e', 'H', 'I', 'm', 'M', 'S', 'u', 'U', 'V', 'w', 'W', 'y']
def isModConv (m c : Char) : Bool := (m == 'E' && eConvs.contains c) || (m == 'O' && oConvs.contains c)

def renderYMD (days : Nat) : List Char :=
  padNum '0' 2 (monOf days) ++ ['/'] ++ padNum '0' 2 (mdayOf days) ++ ['/'] ++ padNum '0' 2 (yearOf days % 100)

/-- conversions that do not look at the time of day beyond AM/PM -/
def renderStatic (c : Char) (days : Nat) (pm : Bool) (zi : ZInfo) : List Char :=
  if c = 'a' then (wdayName (wdayOf days)).take 3
  else if c = 'A' then wdayName (wdayOf days)
  else if c = 'b' ∨ c = 'h' then (monName (monOf days)).take 3
  else if c = 'B' then monName (monOf days)
  else if c = 'C' then padNum '0' 2 (yearOf days / 100)
  else if c = 'd' then padNum '0' 2 (mdayOf days)
  else if c = 'D' ∨ c = 'x' then renderYMD days
  else if c = 'e' then padNum ' ' 2 (mdayOf days)
  else if c = 'F' then padNum '0' 4 (yearOf days) ++ ['-'] ++ padNum '0' 2 (monOf days) ++ ['-'] ++ padNum '0' 2 (mdayOf days)
  else if c = 'g' then padNum '0' 2 ((isoYearWeek days).1 % 100).toNat
  else if c = 'G' then padNum '0' 4 (isoYearWeek days).1.toNat
  else if c = 'j' then padNum '0' 3 (ydayOf days + 1)
  else if c = 'm' then padNum '0' 2 (monOf days)
  else if c = 'n' then ['\n']
  else if c = 'p' then (if pm then ['P', 'M'] else ['A', 'M'])
  else if c = 'P' then (if pm then ['p', 'm'] else ['a', 'm'])
  else if c = 't' then ['\t']
  else if c = 'u' then natDigits (if wdayOf days = 0 then 7 else wdayOf days)
  else if c = 'U' then padNum '0' 2 ((ydayOf days + 7 - wdayOf days) / 7)
  else if c = 'V' then padNum '0' 2 (isoYearWeek days).2.toNat
  else if c = 'w' then natDigits (wdayOf days)
  else if c = 'W' then padNum '0' 2 ((ydayOf days + 7 - (wdayOf days + 6) % 7) / 7)
  else if c = 'y' then padNum '0' 2 (yearOf days % 100)
  else if c = 'Y' then padNum '0' 4 (yearOf days)
  else if c = 'z' then
    (if zi.off < 0 then ['-'] else ['+']) ++ padNum '0' 2 (zi.off.natAbs / 3600) ++ padNum '0' 2 (zi.off.natAbs / 60 % 60)
  else if c = 'Z' then zi.abbr
  else []

def renderHMS (tm : Tm) : List Char :=
  padNum '0' 2 tm.hour ++ [':'] ++ padNum '0' 2 tm.min ++ [':'] ++ padNum '0' 2 tm.sec

/-- conversions that look at the time of day -/
def renderTime (c : Char) (tm : Tm) : List Char :=
  if c = 'H' then padNum '0' 2 tm.hour
  else if c = 'M' then padNum '0' 2 tm.min
  else if c = 'S' then padNum '0' 2 tm.sec
  else if c = 'I' then padNum '0' 2 (hour12 tm.hour)
  else if c = 'k' then padNum ' ' 2 tm.hour
  else if c = 'l' then padNum ' ' 2 (hour12 tm.hour)
  else if c = 's' then natDigits tm.epoch
  else if c = 'T' ∨ c = 'X' then renderHMS tm
  else if c = 'R' then padNum '0' 2 tm.hour ++ [':'] ++ padNum '0' 2 tm.min
  else if c = 'r' then
    padNum '0' 2 (hour12 tm.hour) ++ [':'] ++ padNum '0' 2 tm.min ++ [':'] ++ padNum '0' 2 tm.sec ++ [' '] ++
      renderStatic 'p' tm.days tm.pm tm.zi
  else if c = 'c' then
    renderStatic 'a' tm.days tm.pm tm.zi ++ [' '] ++ renderStatic 'b' tm.days tm.pm tm.zi ++ [' '] ++
      renderStatic 'e' tm.days tm.pm tm.zi ++ [' '] ++ renderHMS tm ++ [' '] ++ renderStatic 'Y' tm.days tm.pm tm.zi
  else []

def renderConv (c : Char) (tm : Tm) : List Char :=
  if timeConvs.contains c then renderTime c tm else renderStatic c tm.days tm.pm tm.zi

/-! ### tokens -/

inductive Frac | ms | us | ns
deriving DecidableEq, Repr

def Frac.letter : Frac → Char
  | .ms => 'm' | .us => 'u' | .ns => 'n'
def Frac.width : Frac → Nat
  | .ms => 3 | .us => 6 | .ns => 9
/-- `extracted_ns / 1'000'000`, `/ 1'000`, or as is -/
def Frac.value (k : Frac) (ns : Nat) : Nat :=
  match k with
  | .ms => ns / 1000000 | .us => ns / 1000 | .ns => ns
def Frac.ofLetter (c : Char) : Option Frac :=
  if c = 'm' then some .ms else if c = 'u' then some .us else if c = 'n' then some .ns else none

inductive Tok
  | lit (c : Char)             -- any character other than '%'
  | pct                        -- "%%"
  | conv (c : Char)            -- "%c" with `isConv c`
  | mod (m : Char) (c : Char)  -- "%Ec" / "%Oc" with `isModConv m c`
  | frac (k : Frac)            -- "%Qms" "%Qus" "%Qns"
  | stray                      -- a '%' that starts none of the above: glibc copies it (outside the supported patterns)
deriving DecidableEq, Repr

def Tok.chars : Tok → List Char
  | .lit c => [c]
  | .pct => ['%', '%']
  | .conv c => ['%', c]
  | .mod m c => ['%', m, c]
  | .frac k => ['%', 'Q', k.letter, 's']
  | .stray => ['%']

/-- the lexer: how `strftime` (and quill's `%Q?s` extension) reads a pattern, left to right -/
def lex : List Char → List Tok
  | [] => []
  | a :: rest =>
    let tl : Unit → List Tok := fun _ => lex rest
    if a ≠ '%' then .lit a :: tl ()
    else match rest with
      | [] => [.stray]
      | b :: r1 =>
        if b = '%' then .pct :: lex r1
        else if isConv b then .conv b :: lex r1
        else match r1 with
          | [] => .stray :: tl ()
          | c :: r2 =>
            if isModConv b c then .mod b c :: lex r2
            else match r2 with
              | [] => .stray :: tl ()
              | d :: r3 =>
                match (if b = 'Q' ∧ d = 's' then Frac.ofLetter c else none) with
                | some k => .frac k :: lex r3
                | none => .stray :: tl ()

/-- fractional second digits for `%Q?s`: `ns` is the sub-second part in nanoseconds -/
def renderFrac (k : Frac) (ns : Nat) : List Char := fixedDigits k.width (k.value ns)

/-- one token as plain `strftime` renders it (`%Q` is not a conversion for libc: copied) -/
def renderTokPlain (tm : Tm) : Tok → List Char
  | .lit c => [c]
  | .pct => ['%']
  | .conv c => renderConv c tm
  | .mod _ c => renderConv c tm
  | .frac k => (Tok.frac k).chars
  | .stray => ['%']

/-- one token as the property's reference renders it -/
def renderTok (tm : Tm) (ns : Nat) : Tok → List Char
  | .frac k => renderFrac k ns
  | t => renderTokPlain tm t

/-- glibc `strftime` in the C locale -/
def strftimePlain (p : List Char) (tm : Tm) : List Char := (lex p).flatMap (renderTokPlain tm)

/-- **the reference of C13**: `strftime` of the broken-down instant with `%Qms/%Qus/%Qns` replaced by the
    zero-padded fraction of the sub-second part `ns` -/
def strftimeRef (p : List Char) (tm : Tm) (ns : Nat) : List Char := (lex p).flatMap (renderTok tm ns)

end Time
