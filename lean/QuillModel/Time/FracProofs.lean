import QuillModel.Time.Cache
/-!
# Digits, padding, and the fraction writer

`writeFrac w v` (zeros appended, then the decimal digits of `v` copied so that they end at the end of the
buffer) is the zero-padded `w`-digit rendering of `v`, for every `v < 10^w`; lengths of padded numbers.
-/
namespace Time

theorem digitChar_zero : digitChar 0 = '0' := by decide

theorem fixedDigits_zero (w : Nat) : fixedDigits w 0 = List.replicate w '0' := by
  induction w with
  | zero => rfl
  | succ w ih =>
    simp only [fixedDigits, Nat.zero_div, ih, digitChar_zero]
    rw [List.replicate_succ']

theorem fixedDigits_length (w n : Nat) : (fixedDigits w n).length = w := by
  induction w generalizing n with
  | zero => rfl
  | succ w ih => simp [fixedDigits, ih]

theorem digitsF_lt_ten (f n : Nat) (h : n < 10) : digitsF (f + 1) n = [digitChar n] := by
  simp [digitsF, h]

theorem digitsF_ge_ten (f n : Nat) (h : ¬ n < 10) :
    digitsF (f + 1) n = digitsF f (n / 10) ++ [digitChar n] := by
  simp [digitsF, h]

/-- number of digits: between 1 and `k` for `n < 10^k` -/
theorem digitsF_length_le (k : Nat) : ∀ (f n : Nat), 1 ≤ k → k ≤ f → n < 10 ^ k →
    1 ≤ (digitsF f n).length ∧ (digitsF f n).length ≤ k := by
  induction k with
  | zero => intro f n h; omega
  | succ k ih =>
    intro f n _ hf hn
    obtain ⟨f', rfl⟩ : ∃ f', f = f' + 1 := ⟨f - 1, by omega⟩
    by_cases h10 : n < 10
    · rw [digitsF_lt_ten _ _ h10]; simp
    · rw [digitsF_ge_ten _ _ h10]
      have hk : 1 ≤ k := by
        rcases Nat.eq_zero_or_pos k with h0 | h0
        · subst h0; simp at hn; omega
        · exact h0
      have hdiv : n / 10 < 10 ^ k := by
        rw [Nat.pow_succ] at hn
        exact Nat.div_lt_of_lt_mul (by rw [Nat.mul_comm]; exact hn)
      have := ih f' (n / 10) hk (by omega) hdiv
      simp only [List.length_append, List.length_singleton]
      omega

/-- exactly `k` digits for `10^(k-1) ≤ n < 10^k` -/
theorem digitsF_length_eq (k : Nat) : ∀ (f n : Nat), 1 ≤ k → k ≤ f → 10 ^ (k - 1) ≤ n → n < 10 ^ k →
    (digitsF f n).length = k := by
  induction k with
  | zero => intro f n h; omega
  | succ k ih =>
    intro f n _ hf hlo hn
    obtain ⟨f', rfl⟩ : ∃ f', f = f' + 1 := ⟨f - 1, by omega⟩
    rcases Nat.eq_zero_or_pos k with h0 | h0
    · subst h0
      have : n < 10 := by simpa using hn
      rw [digitsF_lt_ten _ _ this]; rfl
    · have h10 : ¬ n < 10 := by
        have : 10 ^ 1 ≤ 10 ^ (k + 1 - 1) := Nat.pow_le_pow_right (by omega) (by omega)
        omega
      rw [digitsF_ge_ten _ _ h10]
      have hdiv : n / 10 < 10 ^ k := by
        rw [Nat.pow_succ] at hn
        exact Nat.div_lt_of_lt_mul (by rw [Nat.mul_comm]; exact hn)
      have hlo' : 10 ^ (k - 1) ≤ n / 10 := by
        have e : 10 ^ (k + 1 - 1) = 10 ^ (k - 1) * 10 := by
          rw [← Nat.pow_succ]; congr 1; omega
        rw [e] at hlo
        exact (Nat.le_div_iff_mul_le (by omega)).2 hlo
      have := ih f' (n / 10) h0 (by omega) hlo' hdiv
      simp [this]

/-- zero-padded fixed-width digits are the plain digits right-aligned over zeros -/
theorem fixedDigits_eq_pad (k : Nat) : ∀ (f n : Nat), 1 ≤ k → k ≤ f → n < 10 ^ k →
    fixedDigits k n = List.replicate (k - (digitsF f n).length) '0' ++ digitsF f n := by
  induction k with
  | zero => intro f n h; omega
  | succ k ih =>
    intro f n _ hf hn
    obtain ⟨f', rfl⟩ : ∃ f', f = f' + 1 := ⟨f - 1, by omega⟩
    by_cases h10 : n < 10
    · rw [digitsF_lt_ten _ _ h10]
      have : n / 10 = 0 := by omega
      simp [fixedDigits, this, fixedDigits_zero]
    · rw [digitsF_ge_ten _ _ h10]
      have hk : 1 ≤ k := by
        rcases Nat.eq_zero_or_pos k with h0 | h0
        · subst h0; simp at hn; omega
        · exact h0
      have hdiv : n / 10 < 10 ^ k := by
        rw [Nat.pow_succ] at hn
        exact Nat.div_lt_of_lt_mul (by rw [Nat.mul_comm]; exact hn)
      have hlen := digitsF_length_le k f' (n / 10) hk (by omega) hdiv
      simp only [fixedDigits, ih f' (n / 10) hk (by omega) hdiv, List.length_append, List.length_singleton,
        List.append_assoc]
      congr 2
      omega

theorem overwrite_replicate_tail (w : Nat) (c : Char) (ds : List Char) (h : ds.length ≤ w) :
    overwrite (List.replicate w c) ((List.replicate w c).length - ds.length) ds =
      List.replicate (w - ds.length) c ++ ds := by
  simp only [overwrite, List.length_replicate, List.take_replicate, List.drop_replicate]
  have : w - (w - ds.length + ds.length) = 0 := by omega
  rw [this, Nat.min_eq_left (by omega)]
  simp

/-- **the fraction writer** — right-aligned digits over a zero field = zero-padded fixed width -/
theorem writeFrac_eq (w v : Nat) (hw1 : 1 ≤ w) (hw : w ≤ 20) (hv : v < 10 ^ w) :
    writeFrac w v = fixedDigits w v := by
  have hlen := digitsF_length_le w 20 v hw1 hw hv
  simp only [writeFrac, natDigits]
  rw [overwrite_replicate_tail w '0' _ hlen.2, fixedDigits_eq_pad w 20 v hw1 hw hv]

/-- for every sub-second value and every specifier the written fraction is the reference's -/
theorem writeFrac_frac (k : Frac) (ns : Nat) (h : ns < 1000000000) :
    writeFrac k.width (k.value ns) = renderFrac k ns := by
  unfold renderFrac
  cases k
  · exact writeFrac_eq 3 _ (by decide) (by decide) (by simp only [Frac.value]; omega)
  · exact writeFrac_eq 6 _ (by decide) (by decide) (by simp only [Frac.value]; omega)
  · exact writeFrac_eq 9 _ (by decide) (by decide) (by simp only [Frac.value]; omega)

/-! ### padded numbers -/

theorem padNum_length (c : Char) (w n : Nat) (hw1 : 1 ≤ w) (hw : w ≤ 20) (hn : n < 10 ^ w) :
    (padNum c w n).length = w := by
  have hlen := digitsF_length_le w 20 n hw1 hw hn
  simp only [padNum, padLeft, natDigits, List.length_append, List.length_replicate]
  omega

theorem padNum_two_length (c : Char) (n : Nat) (hn : n < 100) : (padNum c 2 n).length = 2 :=
  padNum_length c 2 n (by decide) (by decide) (by simpa using hn)

/-- a ten-digit number needs no padding in a field of ten -/
theorem padNum_ten_eq (c : Char) (n : Nat) (hlo : 1000000000 ≤ n) (hhi : n < 10000000000) :
    padNum c 10 n = natDigits n := by
  have := digitsF_length_eq 10 20 n (by decide) (by decide) (by simpa using hlo) (by simpa using hhi)
  simp [padNum, padLeft, natDigits, this]

theorem natDigits_ten_length (n : Nat) (hlo : 1000000000 ≤ n) (hhi : n < 10000000000) :
    (natDigits n).length = 10 :=
  digitsF_length_eq 10 20 n (by decide) (by decide) (by simpa using hlo) (by simpa using hhi)

end Time
