import QuillModel.Time.MachineProofs
/-!
# `StringFromTime::init` and `TimestampFormatter`

`init` rejects exactly the patterns with a `%X` conversion and otherwise establishes the cache invariant for the
rewritten pattern; the formatter's constructor finds the fractional specifier token, throws for two different
kinds, and splits the pattern into two cached parts around it; one call renders part 1, the fraction, part 2.
-/
namespace Time

/-! ### `StringFromTime::init` -/

theorem splitHit_X_isSome (toks : List Tok) : (splitHit hitX toks).isSome = hasX toks := by
  cases hx : hasX toks with
  | false =>
    have : ∀ t ∈ toks, hitX t = false := by
      intro t ht
      cases hh : hitX t with
      | false => rfl
      | true =>
        exfalso
        cases t with
        | conv c =>
          simp only [hitX, beq_iff_eq] at hh; subst hh
          have : hasX toks = true := by simpa [hasX] using ht
          rw [hx] at this; cases this
        | _ => simp [hitX] at hh
    rw [splitHit_of_none_mem hitX toks this]; rfl
  | true =>
    cases hs : splitHit hitX toks with
    | some r => rfl
    | none =>
      exfalso
      have hm : Tok.conv 'X' ∈ toks := by simpa [hasX] using hx
      have := splitHit_none hitX toks hs _ hm
      simp [hitX] at this

theorem findAt_X (toks : List Tok) (h : supportedToks toks = true) :
    (findAt (startsWith ['X']) (charsOf toks)).isSome = hasX toks := by
  rw [findAt_toks _ _ hitSpec_X toks h, Option.isSome_map, splitHit_X_isSome]

theorem SFT.init_reject (toks : List Tok) (loc : Bool) (h : supportedToks toks = true) (hx : hasX toks = true) :
    SFT.init (charsOf toks) loc = .error .percentX := by
  simp [SFT.init, findAt_X toks h, hx]

/-- the state `init` leaves -/
def SFT.fresh (toks : List Tok) (loc : Bool) : SFT :=
  { fmt := charsOf (rw3 toks), parts := populateParts (charsOf (rw3 toks)), localTime := loc }

theorem SFT.init_accept (toks : List Tok) (loc : Bool) (h : supportedToks toks = true) (hx : hasX toks = false) :
    SFT.init (charsOf toks) loc = .ok (SFT.fresh toks loc) := by
  simp [SFT.init, findAt_X toks h, hx, rewrite_toks toks h, SFT.fresh]

theorem mem_rw3_s (toks : List Tok) (h : Tok.conv 's' ∈ rw3 toks) : Tok.conv 's' ∈ toks := by
  simp only [rw3] at h
  rcases mem_rwToks _ _ _ _ h with ⟨h2, _⟩ | hin
  · rcases mem_rwToks _ _ _ _ h2 with ⟨h1, _⟩ | hin
    · rcases mem_rwToks _ _ _ _ h1 with ⟨h0, _⟩ | hin
      · exact h0
      · exact absurd hin (by decide)
    · exact absurd hin (by decide)
  · exact absurd hin (by decide)

theorem Good_rw3 (toks : List Tok) (t : Nat) (h : Good toks t) : Good (rw3 toks) t :=
  ⟨h.1, h.2.1, fun hs => h.2.2 (mem_rw3_s toks hs)⟩

theorem Good_sub (toks sub : List Tok) (hsub : ∀ t ∈ sub, t ∈ toks) (t : Nat) (h : Good toks t) : Good sub t :=
  ⟨h.1, h.2.1, fun hs => h.2.2 (hsub _ hs)⟩

/-- the state `init` produces satisfies the invariant, for the rewritten pattern -/
theorem SFT.init_inv (P : Nat) (tz : Nat → ZInfo) (toks : List Tok) (loc : Bool) :
    SInv P tz loc (rw3 toks) (SFT.fresh toks loc) :=
  ⟨rfl, rfl, rfl, Or.inl ⟨rfl, rfl⟩⟩

theorem patOK_rw3 (P : Nat) (tz : Nat → ZInfo) (loc : Bool) (toks : List Tok) (h : supportedToks toks = true)
    (hx : hasX toks = false) (hz : loc = true → ZoneOK P tz) : PatOK P tz loc (rw3 toks) :=
  ⟨rw3_supported toks h, rw3_tokens toks h hx, hz⟩

/-- **`StringFromTime` as a whole**: accepted pattern, any history of good instants -/
theorem SFT.spec (P : Nat) (tz : Nat → ZInfo) (loc : Bool) (toks : List Tok) (h : supportedToks toks = true)
    (hx : hasX toks = false) (hz : loc = true → ZoneOK P tz) (s : SFT) (hi : SInv P tz loc (rw3 toks) s) (t : Nat)
    (ht : Good toks t) :
    (s.step P tz t).2 = toks.flatMap (renderTokPlain (tmOf loc tz t)) ∧ SInv P tz loc (rw3 toks) (s.step P tz t).1 := by
  obtain ⟨h1, h2⟩ := SFT.step_spec (patOK_rw3 P tz loc toks h hx hz) s hi t (Good_rw3 toks t ht)
  exact ⟨by rw [h1, rw3_render], h2⟩

/-! ### the constructor of `TimestampFormatter` -/

theorem findFrac_toks (k : Frac) (toks : List Tok) (h : supportedToks toks = true) :
    findFrac k (charsOf toks) = (splitHit (hitFrac k) toks).map (fun r => (charsOf r.1, charsOf r.2.2)) := by
  unfold findFrac
  rw [findAt_toks _ _ (hitSpec_frac k) toks h]
  cases hs : splitHit (hitFrac k) toks with
  | none => rfl
  | some r =>
    obtain ⟨a, x, b⟩ := r
    have hx := (splitHit_some _ toks a x b hs).2.1
    cases x with
    | frac k' => simp [Tok.chars]
    | _ => simp [hitFrac] at hx

theorem hitFrac_false_of_not_frac (k : Frac) (t : Tok) (h : isFracTok t = false) : hitFrac k t = false := by
  cases t <;> simp_all [isFracTok, hitFrac]

theorem findFrac_none (k : Frac) (toks : List Tok) (h : supportedToks toks = true)
    (hn : ∀ t ∈ toks, hitFrac k t = false) : findFrac k (charsOf toks) = none := by
  rw [findFrac_toks k toks h, splitHit_of_none_mem _ toks hn]; rfl

theorem findFrac_some (k : Frac) (a b : List Tok) (h : supportedToks (a ++ .frac k :: b) = true)
    (hn : ∀ t ∈ a, hitFrac k t = false) :
    findFrac k (charsOf (a ++ .frac k :: b)) = some (charsOf a, charsOf b) := by
  rw [findFrac_toks k _ h, splitHit_append _ a (.frac k) b hn (by simp [hitFrac])]; rfl

theorem TF.init_none (rr : Bool) (fmt : List Char) (loc : Bool) (h : ∀ k, findFrac k fmt = none) :
    TF.init rr fmt loc = (SFT.init fmt loc).map (fun p1 => { spec := none, p1 := p1, p2 := none }) := by
  simp only [TF.init, h]
  cases SFT.init fmt loc <;> rfl

set_option linter.unusedSimpArgs false in
theorem TF.init_one (rr : Bool) (fmt : List Char) (loc : Bool) (k : Frac) (a b : List Char)
    (hk : findFrac k fmt = some (a, b)) (ho : ∀ k', k' ≠ k → findFrac k' fmt = none) :
    TF.init rr fmt loc =
      (SFT.init a loc).bind (fun p1 =>
        if rr = true ∧ ((findFrac .ms b).isSome ∨ (findFrac .us b).isSome ∨ (findFrac .ns b).isSome) then .error .repeated
        else if b = [] then .ok { spec := some k, p1 := p1, p2 := none }
        else (SFT.init b loc).map (fun p2 => { spec := some k, p1 := p1, p2 := some p2 })) := by
  have tail : ∀ p1 : SFT,
      (if b = [] then (pure { spec := some k, p1 := p1, p2 := none } : Except InitError TF)
        else do
          let p2 ← SFT.init b loc
          pure { spec := some k, p1 := p1, p2 := some p2 }) =
      (if b = [] then .ok { spec := some k, p1 := p1, p2 := none }
        else (SFT.init b loc).map (fun p2 => { spec := some k, p1 := p1, p2 := some p2 })) := by
    intro p1
    by_cases hb : b = []
    · simp [hb, pure, Except.pure]
    · simp only [hb, if_false, bind, pure, Except.pure]
      cases SFT.init b loc <;> simp [Except.map, Except.bind]
  cases k with
  | ms =>
    simp only [TF.init, hk, ho .us (by decide), ho .ns (by decide), Option.isSome_none, Option.isSome_some,
      Bool.false_eq_true, and_false, false_and, or_false, false_or, if_false]
    cases SFT.init a loc with
    | error e => rfl
    | ok p1 =>
      simp only [bind, Except.bind]
      by_cases hc : rr = true ∧ ((findFrac .ms b).isSome = true ∨ (findFrac .us b).isSome = true ∨ (findFrac .ns b).isSome = true)
      · rw [if_pos hc, if_pos hc]
      · rw [if_neg hc, if_neg hc]; exact tail p1
  | us =>
    simp only [TF.init, hk, ho .ms (by decide), ho .ns (by decide), Option.isSome_none, Option.isSome_some,
      Bool.false_eq_true, and_false, false_and, or_false, false_or, if_false]
    cases SFT.init a loc with
    | error e => rfl
    | ok p1 =>
      simp only [bind, Except.bind]
      by_cases hc : rr = true ∧ ((findFrac .ms b).isSome = true ∨ (findFrac .us b).isSome = true ∨ (findFrac .ns b).isSome = true)
      · rw [if_pos hc, if_pos hc]
      · rw [if_neg hc, if_neg hc]; exact tail p1
  | ns =>
    simp only [TF.init, hk, ho .ms (by decide), ho .us (by decide), Option.isSome_none, Option.isSome_some,
      Bool.false_eq_true, and_false, false_and, or_false, false_or, if_false]
    cases SFT.init a loc with
    | error e => rfl
    | ok p1 =>
      simp only [bind, Except.bind]
      by_cases hc : rr = true ∧ ((findFrac .ms b).isSome = true ∨ (findFrac .us b).isSome = true ∨ (findFrac .ns b).isSome = true)
      · rw [if_pos hc, if_pos hc]
      · rw [if_neg hc, if_neg hc]; exact tail p1

theorem TF.init_two (rr : Bool) (fmt : List Char) (loc : Bool) (k1 k2 : Frac) (hne : k1 ≠ k2)
    (h1 : (findFrac k1 fmt).isSome = true) (h2 : (findFrac k2 fmt).isSome = true) :
    TF.init rr fmt loc = .error .exclusive := by
  cases k1 <;> cases k2 <;> first | exact absurd rfl hne | skip
  all_goals simp only [TF.init, h1, h2]; simp

/-! ### decomposition by the fractional specifier -/

theorem fracCount_cons (t : Tok) (ts : List Tok) :
    fracCount (t :: ts) = (if isFracTok t = true then 1 else 0) + fracCount ts := by
  simp only [fracCount, List.filter_cons]
  split <;> simp <;> omega

theorem fracCount_zero : ∀ (toks : List Tok), fracCount toks = 0 → ∀ t ∈ toks, isFracTok t = false := by
  intro toks
  induction toks with
  | nil => intro _ t ht; simp at ht
  | cons u us ih =>
    intro h t ht
    rw [fracCount_cons] at h
    have hu : isFracTok u = false := by
      cases hh : isFracTok u with
      | false => rfl
      | true => simp [hh] at h
    simp only [hu, Bool.false_eq_true, if_false, Nat.zero_add] at h
    simp only [List.mem_cons] at ht
    rcases ht with rfl | ht
    · exact hu
    · exact ih h t ht

theorem fracCount_one : ∀ (toks : List Tok), fracCount toks = 1 →
    ∃ k a b, toks = a ++ Tok.frac k :: b ∧ (∀ t ∈ a, isFracTok t = false) ∧ (∀ t ∈ b, isFracTok t = false) := by
  intro toks
  induction toks with
  | nil => intro h; simp [fracCount] at h
  | cons u us ih =>
    intro h
    rw [fracCount_cons] at h
    cases hh : isFracTok u with
    | true =>
      simp only [hh, if_true] at h
      have h0 : fracCount us = 0 := by omega
      cases u with
      | frac k => exact ⟨k, [], us, rfl, by simp, fracCount_zero us h0⟩
      | _ => simp [isFracTok] at hh
    | false =>
      simp only [hh, Bool.false_eq_true, if_false, Nat.zero_add] at h
      obtain ⟨k, a, b, he, ha, hb⟩ := ih h
      refine ⟨k, u :: a, b, by simp [he], ?_, hb⟩
      intro t ht
      simp only [List.mem_cons] at ht
      rcases ht with rfl | ht
      · exact hh
      · exact ha t ht

theorem renderTok_plain (tm : Tm) (ns : Nat) (t : Tok) (h : isFracTok t = false) :
    renderTok tm ns t = renderTokPlain tm t := by
  cases t <;> first | rfl | simp [isFracTok] at h

theorem flatMap_renderTok_plain (tm : Tm) (ns : Nat) (toks : List Tok) (h : ∀ t ∈ toks, isFracTok t = false) :
    toks.flatMap (renderTok tm ns) = toks.flatMap (renderTokPlain tm) :=
  flatMap_congr' _ _ toks (fun t ht => renderTok_plain tm ns t (h t ht))

theorem hasX_sub (toks sub : List Tok) (hsub : ∀ t ∈ sub, t ∈ toks) (h : hasX toks = false) : hasX sub = false := by
  cases hs : hasX sub with
  | false => rfl
  | true =>
    have : Tok.conv 'X' ∈ sub := by simpa [hasX] using hs
    have : hasX toks = true := by simpa [hasX] using hsub _ this
    rw [h] at this; cases this

theorem charsOf_eq_nil (toks : List Tok) : charsOf toks = [] ↔ toks = [] := by
  cases toks with
  | nil => simp
  | cons t ts => simp [tok_chars_ne_nil t]

/-! ### the formatter's invariant -/

inductive TInv (P : Nat) (tz : Nat → ZInfo) (loc : Bool) (toks : List Tok) (f : TF) : Prop
  | plain (hn : ∀ t ∈ toks, isFracTok t = false) (hs : f.spec = none) (h2 : f.p2 = none)
      (h1 : SInv P tz loc (rw3 toks) f.p1)
  | split (k : Frac) (a b : List Tok) (ht : toks = a ++ Tok.frac k :: b) (ha : ∀ t ∈ a, isFracTok t = false)
      (hb : ∀ t ∈ b, isFracTok t = false) (hs : f.spec = some k) (h1 : SInv P tz loc (rw3 a) f.p1)
      (h2 : (b = [] ∧ f.p2 = none) ∨ ∃ p2, f.p2 = some p2 ∧ SInv P tz loc (rw3 b) p2)

/-- **the constructor accepts** a supported pattern without `%X` and with at most one fractional specifier, and
    establishes the invariant -/
theorem TF.init_spec (rr : Bool) (P : Nat) (tz : Nat → ZInfo) (loc : Bool) (toks : List Tok)
    (h : supportedToks toks = true) (hx : hasX toks = false) (hf : fracCount toks ≤ 1) :
    ∃ f, TF.init rr (charsOf toks) loc = .ok f ∧ TInv P tz loc toks f := by
  rcases Nat.lt_or_ge (fracCount toks) 1 with h0 | h1
  · have hn := fracCount_zero toks (by omega)
    have hnone : ∀ k, findFrac k (charsOf toks) = none :=
      fun k => findFrac_none k toks h (fun t ht => hitFrac_false_of_not_frac k t (hn t ht))
    rw [TF.init_none rr _ _ hnone, SFT.init_accept toks loc h hx]
    exact ⟨{ spec := none, p1 := SFT.fresh toks loc, p2 := none }, rfl,
      TInv.plain hn rfl rfl (SFT.init_inv P tz toks loc)⟩
  · obtain ⟨k, a, b, he, ha, hb⟩ := fracCount_one toks (by omega)
    subst he
    obtain ⟨hsa, hsb⟩ := supported_append a (.frac k :: b) h
    rw [supported_cons] at hsb
    have hxa : hasX a = false := hasX_sub _ a (fun t ht => by simp [ht]) hx
    have hxb : hasX b = false := hasX_sub _ b (fun t ht => by simp [ht]) hx
    have hk := findFrac_some k a b h (fun t ht => hitFrac_false_of_not_frac k t (ha t ht))
    have ho : ∀ k', k' ≠ k → findFrac k' (charsOf (a ++ .frac k :: b)) = none := by
      intro k' hne
      apply findFrac_none k' _ h
      intro t ht
      simp only [List.mem_append, List.mem_cons] at ht
      rcases ht with ht | rfl | ht
      · exact hitFrac_false_of_not_frac k' t (ha t ht)
      · simpa [hitFrac] using hne
      · exact hitFrac_false_of_not_frac k' t (hb t ht)
    have hbn : ∀ k', findFrac k' (charsOf b) = none :=
      fun k' => findFrac_none k' b hsb.2.2 (fun t ht => hitFrac_false_of_not_frac k' t (hb t ht))
    have hnr : ¬ (rr = true ∧ ((findFrac .ms (charsOf b)).isSome = true ∨ (findFrac .us (charsOf b)).isSome = true ∨
        (findFrac .ns (charsOf b)).isSome = true)) := by simp [hbn]
    rw [TF.init_one rr _ loc k _ _ hk ho, SFT.init_accept a loc hsa hxa]
    simp only [Except.bind, if_neg hnr]
    by_cases hbe : b = []
    · subst hbe
      exact ⟨{ spec := some k, p1 := SFT.fresh a loc, p2 := none }, by simp,
        TInv.split k a [] rfl ha hb rfl (SFT.init_inv P tz a loc) (Or.inl ⟨rfl, rfl⟩)⟩
    · have hce : charsOf b ≠ [] := fun e => hbe ((charsOf_eq_nil b).1 e)
      rw [SFT.init_accept b loc hsb.2.2 hxb]
      exact ⟨{ spec := some k, p1 := SFT.fresh a loc, p2 := some (SFT.fresh b loc) },
        by simp [hce, Except.map],
        TInv.split k a b rfl ha hb rfl (SFT.init_inv P tz a loc) (Or.inr ⟨_, rfl, SFT.init_inv P tz b loc⟩)⟩

/-- **one call of `TimestampFormatter::format_timestamp`** -/
theorem TF.step_spec (P : Nat) (tz : Nat → ZInfo) (loc : Bool) (toks : List Tok) (h : supportedToks toks = true)
    (hx : hasX toks = false) (hz : loc = true → ZoneOK P tz) (f : TF) (hi : TInv P tz loc toks f) (ns : Nat)
    (hg : Good toks (ns / 1000000000)) :
    (f.step P tz ns).2 = toks.flatMap (renderTok (tmOf loc tz (ns / 1000000000)) (ns % 1000000000)) ∧
    TInv P tz loc toks (f.step P tz ns).1 := by
  have hex : ns - ns / 1000000000 * 1000000000 = ns % 1000000000 := by omega
  cases hi with
  | plain hn hs h2 h1 =>
    obtain ⟨o1, i1⟩ := SFT.spec P tz loc toks h hx hz f.p1 h1 _ hg
    simp only [TF.step, hs, h2, List.append_nil]
    refine ⟨by rw [o1, flatMap_renderTok_plain _ _ toks hn], TInv.plain hn rfl rfl i1⟩
  | split k a b ht ha hb hs h1 h2 =>
    subst ht
    obtain ⟨hsa, hsb⟩ := supported_append a (.frac k :: b) h
    rw [supported_cons] at hsb
    have hxa : hasX a = false := hasX_sub _ a (fun t ht => by simp [ht]) hx
    have hxb : hasX b = false := hasX_sub _ b (fun t ht => by simp [ht]) hx
    have hga : Good a (ns / 1000000000) := Good_sub _ a (fun t ht => by simp [ht]) _ hg
    have hgb : Good b (ns / 1000000000) := Good_sub _ b (fun t ht => by simp [ht]) _ hg
    obtain ⟨o1, i1⟩ := SFT.spec P tz loc a hsa hxa hz f.p1 h1 _ hga
    have hmid : writeFrac k.width (k.value (ns - ns / 1000000000 * 1000000000)) = renderFrac k (ns % 1000000000) := by
      rw [hex]; exact writeFrac_frac k _ (by omega)
    have hsplit : (a ++ Tok.frac k :: b).flatMap (renderTok (tmOf loc tz (ns / 1000000000)) (ns % 1000000000)) =
        a.flatMap (renderTokPlain (tmOf loc tz (ns / 1000000000))) ++ renderFrac k (ns % 1000000000) ++
          b.flatMap (renderTokPlain (tmOf loc tz (ns / 1000000000))) := by
      rw [List.flatMap_append, List.flatMap_cons, flatMap_renderTok_plain _ _ a ha, flatMap_renderTok_plain _ _ b hb]
      simp [renderTok]
    rcases h2 with ⟨hbe, hp2⟩ | ⟨p2, hp2, i2⟩
    · subst hbe
      simp only [TF.step, hs, hp2, hmid]
      refine ⟨by rw [hsplit, o1]; simp, TInv.split k a [] rfl ha hb rfl i1 (Or.inl ⟨rfl, rfl⟩)⟩
    · obtain ⟨o2, i2'⟩ := SFT.spec P tz loc b hsb.2.2 hxb hz p2 i2 _ hgb
      simp only [TF.step, hs, hp2, hmid]
      refine ⟨by rw [hsplit, o1, o2], TInv.split k a b rfl ha hb rfl i1 (Or.inr ⟨_, rfl, i2'⟩)⟩

/-- a whole history through the formatter -/
theorem TF.run_spec (P : Nat) (tz : Nat → ZInfo) (loc : Bool) (toks : List Tok) (h : supportedToks toks = true)
    (hx : hasX toks = false) (hz : loc = true → ZoneOK P tz) : ∀ (nss : List Nat) (f : TF), TInv P tz loc toks f →
    (∀ ns ∈ nss, Good toks (ns / 1000000000)) →
    TF.run P tz f nss =
      nss.map (fun ns => toks.flatMap (renderTok (tmOf loc tz (ns / 1000000000)) (ns % 1000000000))) := by
  intro nss
  induction nss with
  | nil => intro f _ _; rfl
  | cons ns rest ih =>
    intro f hi hg
    obtain ⟨ho, hi'⟩ := TF.step_spec P tz loc toks h hx hz f hi ns (hg ns (by simp))
    simp only [TF.run, List.map_cons, ho]
    rw [ih _ hi' (fun u hu => hg u (by simp [hu]))]

/-! ### rejections -/

theorem hasKind_mem (k : Frac) (toks : List Tok) (h : hasKind k toks = true) : Tok.frac k ∈ toks := by
  simpa [hasKind] using h

theorem findFrac_isSome_of_mem (k : Frac) (toks : List Tok) (h : supportedToks toks = true)
    (hm : Tok.frac k ∈ toks) : (findFrac k (charsOf toks)).isSome = true := by
  rw [findFrac_toks k toks h, Option.isSome_map]
  cases hs : splitHit (hitFrac k) toks with
  | some r => rfl
  | none =>
    have := splitHit_none _ toks hs _ hm
    simp [hitFrac] at this

/-- two different fractional specifiers: the constructor throws -/
theorem TF.init_exclusive (rr : Bool) (toks : List Tok) (loc : Bool) (h : supportedToks toks = true)
    (hk : 2 ≤ kindCount toks) : TF.init rr (charsOf toks) loc = .error .exclusive := by
  have key : ∃ k1 k2 : Frac, k1 ≠ k2 ∧ hasKind k1 toks = true ∧ hasKind k2 toks = true := by
    simp only [kindCount] at hk
    cases h1 : hasKind .ms toks <;> cases h2 : hasKind .us toks <;> cases h3 : hasKind .ns toks <;>
      simp [h1, h2, h3] at hk
    · exact ⟨.us, .ns, by decide, h2, h3⟩
    · exact ⟨.ms, .ns, by decide, h1, h3⟩
    · exact ⟨.ms, .us, by decide, h1, h2⟩
    · exact ⟨.ms, .us, by decide, h1, h2⟩
  obtain ⟨k1, k2, hne, h1, h2⟩ := key
  exact TF.init_two rr _ loc k1 k2 hne (findFrac_isSome_of_mem k1 toks h (hasKind_mem k1 toks h1))
    (findFrac_isSome_of_mem k2 toks h (hasKind_mem k2 toks h2))

end Time
