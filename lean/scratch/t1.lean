import QuillModel.Filt.Model
open Filt

def pOrig : Params := { lock := { xchg := .acquire, unl := .release }, resetBeforeCopy := false, tryLock := false }
def pTry : Params := { pOrig with tryLock := true }

-- dir1: A1 adds 33, logs 7; A2 inside add 48 (flag set, lock held); backend evaluates 7
def sched1 : List Op := [.beginAdd 1 33, .spin 1, .xchg 1, .setFlag 1, .unlock 1, .beginLog 1 7 4, .logStore 1,
  .beginAdd 2 48, .spin 2, .xchg 2, .setFlag 2,
  .beginPoll 1, .pollLoad 1, .loadLvl 0, .loadFlag 2]

example : Run pTry (init 2 0) (sched1 ++ [.tryFail]) ∧ ((run pTry (init 2 0) (sched1 ++ [.tryFail])).evals.any EvalRec.leaked) = true := by decide
example : Run pOrig (init 2 0) (sched1 ++ [.spin 0, .xchg 0, .unlock 2, .xchg 0, .reset, .unlock 0]) := by decide
#eval (run pOrig (init 2 0) (sched1 ++ [.spin 0, .xchg 0, .unlock 2, .xchg 0, .reset, .unlock 0])).evals
#eval (run pOrig (init 2 0) (sched1 ++ [.spin 0, .xchg 0, .unlock 2, .xchg 0, .reset, .unlock 0])).races
